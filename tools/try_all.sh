#!/bin/bash
# usage: tools/try_all.sh <patch.diff>   applies the patch to /repo, runs ALL quick checks (in parallel), prints new violations, reverts
set -u
patch=$1
cd /repo
if ! git diff --quiet; then echo "repo dirty"; exit 3; fi
if ! git apply "$patch" 2>/tmp/apply.err; then echo "PATCH DOES NOT APPLY: $(head -2 /tmp/apply.err)"; git checkout -- . ; exit 4; fi
cd /verif
out=$(mktemp -d)
python3 -m wbcheck.facts > /dev/null 2>$out/extract.err || { echo "EXTRACTION FAILED"; tail -5 $out/extract.err; git -C /repo checkout -- .; exit 5; }
# evidence files are rewritten by the checks: keep the committed ones
printf '%s\n' C01 C02 C03 C04 C05 C06 C07 C08 C09 C10 C11 C12 C13 C14 C15 C16 C17 C18 C19 C20 | xargs -P 10 -I{} sh -c "./check {} > $out/{}.log 2>&1"
for p in C01 C02 C03 C04 C05 C06 C07 C08 C09 C10 C11 C12 C13 C14 C15 C16 C17 C18 C19 C20; do
  if grep -q VIOLATION $out/$p.log || grep -q ERROR $out/$p.log; then grep -E "^  C|ERROR|VIOLATION" $out/$p.log | grep -v "^VIOLATION" | cut -c1-330; fi
done
rm -rf $out
git -C /repo checkout -- .
git -C /verif checkout -- evidence 2>/dev/null
