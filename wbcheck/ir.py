"""Program IR: loads the fact files and offers resolved-program queries (functions, bodies, calls, patterns)."""
import glob
import json
import os

OK_CTORS = ('std::prelude::v1::Ok', 'std::result::Result::Ok', 'Ok')
ERR_CTORS = ('std::prelude::v1::Err', 'std::result::Result::Err', 'Err')
SOME_CTORS = ('std::prelude::v1::Some', 'std::option::Option::Some', 'Some')
NONE_CTORS = ('std::prelude::v1::None', 'std::option::Option::None', 'None')


class AnchorMissing(Exception):
    """A function / type / construct a rule is anchored on was not found: the check fails closed."""


def callee(e):
    """resolved callee of a call node: the impl method when a trait call was resolved, else the def path"""
    return e.get('impl') or e.get('path') or ''


def ctor_name(e):
    """variant / struct path constructed by a `call` of a tuple ctor, a `struct` literal or a unit `path`"""
    k = e.get('k')
    if k == 'call' and e.get('res', '').startswith('Ctor'):
        return e.get('ctor_of') or e.get('path')
    if k == 'struct':
        return e.get('path')
    if k == 'path' and e.get('res', '').startswith('Ctor'):
        return e.get('ctor_of') or e.get('path')
    return None


def children(e):
    """direct sub-expressions of a node, in evaluation order (closure bodies are NOT entered)"""
    k = e.get('k')
    if k == 'block':
        for s in e['stmts']:
            yield s
        if 'tail' in e:
            yield e['tail']
    elif k == 'let':
        if e.get('init') is not None:
            yield e['init']
        if 'else' in e:
            yield e['else']
    elif k == 'call':
        if 'fexpr' in e:
            yield e['fexpr']
        for a in e['args']:
            yield a
    elif k == 'struct':
        for f in e['fields']:
            yield f['e']
        if 'base' in e:
            yield e['base']
    elif k in ('tuple', 'array'):
        for a in e['elems']:
            yield a
    elif k in ('binary', 'assign', 'assignop'):
        yield e['l']
        yield e['r']
    elif k == 'index':
        yield e['e']
        yield e['i']
    elif k == 'if':
        yield e['cond']
        yield e['then']
        if 'else' in e:
            yield e['else']
    elif k == 'letcond':
        yield e['init']
    elif k == 'match':
        yield e['scrut']
        for a in e['arms']:
            if 'guard' in a:
                yield a['guard']
            yield a['body']
    elif k == 'for':
        if e.get('iter') is not None:
            yield e['iter']
        if e.get('body') is not None:
            yield e['body']
    elif k == 'for_raw':
        yield e['scrut']
        for a in e['arms']:
            yield a['body']
    elif k in ('loop', 'lblock'):
        yield e['body']
    elif k == 'macro':
        for a in e.get('args', []):
            yield a
    else:
        x = e.get('e')
        if isinstance(x, dict):
            yield x


def walk(e, anc=()):
    """pre-order traversal yielding (node, ancestors) — ancestors outermost first"""
    if not isinstance(e, dict):
        return
    yield e, anc
    a2 = anc + (e,)
    for c in children(e):
        if c is not None:
            yield from walk(c, a2)


def diverges(e):
    """does control never fall out of the end of this expression (return / break / continue / panic on every path)?"""
    if not isinstance(e, dict):
        return False
    k = e.get('k')
    if k in ('return', 'break', 'continue'):
        return True
    if k == 'block':
        if any(diverges(st) for st in e.get('stmts', [])):
            return True
        return diverges(e.get('tail')) if 'tail' in e else False
    if k == 'if':
        return 'else' in e and diverges(e['then']) and diverges(e['else'])
    if k == 'match':
        return bool(e.get('arms')) and all(diverges(a['body']) for a in e['arms'])
    if k == 'call':
        c = callee(e)
        return c.startswith(('core::panicking::', 'std::rt::begin_panic', 'std::rt::panic_', 'std::process::exit', 'std::process::abort'))
    if k in ('let',):
        return False
    return False


def inline_predicate(crate, cond, depth=0):
    """`if helper(a, b)` where `fn helper(x, y) -> bool { <one expression> }` is a function of the crate: returns that expression
    with the parameters replaced by the argument expressions (so a condition that was moved into a predicate helper reads like
    the original condition); any other expression is returned unchanged."""
    import copy
    if not isinstance(cond, dict) or depth > 2:
        return cond
    k = cond.get('k')
    if k == 'unary' and cond.get('op') == 'Not':
        inner = inline_predicate(crate, cond['e'], depth)
        return cond if inner is cond['e'] else dict(cond, e=inner)
    if k == 'binary' and cond.get('op') in ('And', 'Or'):
        l, r = inline_predicate(crate, cond['l'], depth), inline_predicate(crate, cond['r'], depth)
        return cond if (l is cond['l'] and r is cond['r']) else dict(cond, l=l, r=r)
    if k != 'call':
        return cond
    g = getattr(crate, 'fns', {}).get(callee(cond))
    if g is None or getattr(g, 'hir', None) is None or not str(g.sig or '').rstrip().endswith('-> bool'):
        return cond
    body = crate.user_body(g).hir
    while isinstance(body, dict) and body.get('k') == 'block' and not body.get('stmts') and 'tail' in body:
        body = body['tail']
    pids = {}
    # `let x = e; .. ; <tail>`: plain single-assignment lets are substituted into the tail as well
    if isinstance(body, dict) and body.get('k') == 'block' and 'tail' in body and \
            all(isinstance(st, dict) and st.get('k') in ('let', 'nop') for st in body.get('stmts', [])):
        for st in body['stmts']:
            if st.get('k') == 'let' and st['pat'].get('k') == 'bind' and st.get('init') is not None and 'else' not in st:
                pids[st['pat']['id']] = st['init']
            elif st.get('k') == 'let':
                return cond
        body = body['tail']
    if not isinstance(body, dict) or body.get('k') == 'block':
        return cond
    for p_, a_ in zip(g.params, cond['args']):
        if isinstance(p_, dict) and p_.get('k') == 'bind':
            pids[p_['id']] = a_

    def sub(e, depth_=0):
        if isinstance(e, dict):
            if e.get('k') == 'path' and e.get('res') == 'local' and e.get('id') in pids and depth_ < 6:
                return sub(pids[e['id']], depth_ + 1)
            return {kk: sub(vv, depth_) for kk, vv in e.items()}
        if isinstance(e, list):
            return [sub(x, depth_) for x in e]
        return e
    return inline_predicate(crate, sub(copy.deepcopy(body)), depth + 1)


def guards(chain):
    """chain = ancestors + (node,): the conditions under which node executes, outermost first.
    Items: ('if', cond_expr, True|False)  |  ('match', scrut_expr, arm)  |  ('loop', node)  |  ('closure', node)
    Guard clauses count: a statement `if c { ..diverges.. }` earlier in an enclosing block contributes ('if', c, False) to
    everything after it, so `if !ok { return } rest` and `if ok { rest }` look alike to the rules."""
    out = []
    for i in range(len(chain) - 1):
        a, nxt = chain[i], chain[i + 1]
        k = a.get('k')
        if k == 'block':
            stmts = a.get('stmts', [])
            upto = len(stmts)
            for j, st in enumerate(stmts):
                if st is nxt:
                    upto = j
                    break
            for st in stmts[:upto]:
                if isinstance(st, dict) and st.get('k') == 'if' and (st['cond'].get('k') == 'lit' or st.get('x')):
                    continue     # `if false { .. }` artefacts of #[instrument] and other expansions
                if isinstance(st, dict) and st.get('k') == 'if' and diverges(st.get('then')) and ('else' not in st or not diverges(st['else'])):
                    out.append(('if', st['cond'], False))
                elif isinstance(st, dict) and st.get('k') == 'if' and 'else' in st and diverges(st['else']) and not diverges(st.get('then')):
                    out.append(('if', st['cond'], True))
        if k == 'call' and short(callee(a)) in ('then', 'then_some') and 'bool' in callee(a) and a.get('args') and nxt is not a['args'][0]:
            out.append(('if', a['args'][0], True))     # `cond.then(|| value)`: the closure runs when cond holds
        if k == 'if':
            if nxt is a.get('then'):
                out.append(('if', a['cond'], True))
            elif nxt is a.get('else'):
                out.append(('if', a['cond'], False))
        elif k == 'match':
            for ai, arm in enumerate(a['arms']):
                if nxt is arm['body'] or nxt is arm.get('guard'):
                    out.append(('match', a['scrut'], arm))
                    if nxt is arm['body']:
                        # `P if g => body`: g holds; an earlier arm `P if g0 => ..` over the same variants was not taken: g0 does not hold
                        mine = pat_variants(arm['pat'])
                        for prev in a['arms'][:ai]:
                            if 'guard' in prev and pat_variants(prev['pat']) & mine:
                                out.append(('if', prev['guard'], False))
                        if 'guard' in arm:
                            out.append(('if', arm['guard'], True))
        elif k in ('loop', 'for'):
            out.append(('loop', a))
        elif k == 'closure':
            out.append(('closure', a))
        elif k == 'let' and nxt is a.get('else'):
            out.append(('letelse', a))
    return out


def strip_not(c):
    """(inner expr, polarity) with leading `!` removed"""
    pol = True
    while isinstance(c, dict) and c.get('k') == 'unary' and c.get('op') == 'Not':
        c = c['e']
        pol = not pol
    return c, pol


def conjuncts(c):
    """split `a && b && let P = e` into its conjuncts"""
    if isinstance(c, dict) and c.get('k') == 'binary' and c.get('op') == 'And':
        return conjuncts(c['l']) + conjuncts(c['r'])
    return [c]


def pat_binds_ids(p, out=None):
    """(binding id, name) of every binding in a pattern"""
    if out is None:
        out = []
    if isinstance(p, dict):
        if p.get('k') == 'bind':
            out.append((p.get('id'), p.get('name')))
        for v in p.values():
            if isinstance(v, dict):
                pat_binds_ids(v, out)
            elif isinstance(v, list):
                for x in v:
                    if isinstance(x, dict):
                        pat_binds_ids(x, out)
    return out


def pat_binds(p, out=None):
    """names bound by a pattern"""
    if out is None:
        out = []
    if not isinstance(p, dict):
        return out
    k = p.get('k')
    if k == 'bind':
        out.append(p['name'])
        if 'sub' in p:
            pat_binds(p['sub'], out)
    elif k in ('pctor', 'ptuple'):
        for a in p['args']:
            pat_binds(a, out)
    elif k == 'pstruct':
        for f in p['fields']:
            pat_binds(f['pat'], out)
    elif k == 'por':
        for a in p['alts']:
            pat_binds(a, out)
    elif k == 'pguard':
        pat_binds(p['pat'], out)
    elif k == 'pslice':
        for a in p['before'] + p['after']:
            pat_binds(a, out)
        if p.get('mid'):
            pat_binds(p['mid'], out)
    return out


def pat_variants(p):
    """set of enum-variant paths a pattern can match at its top level; '_' for catch-all (wild / binding)"""
    k = p.get('k')
    if k in ('wild',):
        return {'_'}
    if k == 'bind':
        return pat_variants(p['sub']) if 'sub' in p else {'_'}
    if k in ('pctor', 'ppath'):
        return {p.get('ctor_of') or p.get('path')}
    if k == 'pstruct':
        return {p.get('path')}
    if k == 'por':
        s = set()
        for a in p['alts']:
            s |= pat_variants(a)
        return s
    if k == 'pguard':
        return pat_variants(p['pat'])
    if k == 'plit':
        return {'lit:' + str(p['v'].get('v'))}
    return {'?' + str(k)}


def short(path):
    return path.split('::')[-1] if path else path


def _offset_ids(e, off):
    if isinstance(e, dict):
        for k in ('id', 'hid', 'target'):
            v = e.get(k)
            if isinstance(v, int) and v < 1000000:
                e[k] = v + off
        for v in e.values():
            if isinstance(v, (dict, list)):
                _offset_ids(v, off)
    elif isinstance(e, list):
        for x in e:
            _offset_ids(x, off)


_REF_FNS = None


def ref_fns():
    """function paths of every crate on the reference tree (the tree the rules were written against).  A function that is not in
    this list was introduced later - typically a private helper that statements were moved into - and is transparent to the
    rules: walking or tracing a function also walks the new functions it calls."""
    global _REF_FNS
    if _REF_FNS is None:
        try:
            _REF_FNS = {k: set(v) for k, v in json.load(open(os.path.join(os.path.dirname(os.path.abspath(__file__)), 'ref_fns.json'))).items()}
        except OSError:
            _REF_FNS = {}
    return _REF_FNS


class Fn:
    def __init__(self, crate, d):
        self.crate = crate
        self.d = d
        self.path = d['path']
        self.kind = d['kind']
        self.file = d['file']
        self.line = d['line']
        self.hir = d['hir']
        self.params = d.get('params', [])
        self.parent = d.get('parent')
        self.mir = d.get('mir')
        self.sig = d.get('sig', '')

    def __repr__(self):
        return f'<Fn {self.crate}::{self.path}>'

    @property
    def loc(self):
        return f'{self.file}:{self.line}'


class Crate:
    def __init__(self, name, d):
        self.name = name
        self.fns = {}
        for f in d['fns']:
            self.fns[f['path']] = Fn(name, f)
        self.adts = {a['path']: a for a in d['adts']}
        self.impls = d.get('impls', [])
        self.children = {}
        for f in self.fns.values():
            if f.parent:
                self.children.setdefault(f.parent, []).append(f)
        # binding / block ids are only unique per owner function: make them unique per crate, so that the body of a helper can be
        # looked at from its caller without two bindings sharing an id
        owners = {}
        for f in self.fns.values():
            o = f
            while o.parent and o.parent in self.fns:
                o = self.fns[o.parent]
            owners.setdefault(o.path, []).append(f)
        for i, (opath, members) in enumerate(sorted(owners.items())):
            off = (i + 1) * 1000000
            for f in members:
                _offset_ids(f.hir, off)
                _offset_ids(f.params, off)

    def fn(self, path):
        """exact def path, or unique suffix match"""
        if path in self.fns:
            return self.fns[path]
        c = [f for p, f in self.fns.items() if p.endswith('::' + path) or p.endswith(path) and (len(p) == len(path))]
        c = [f for f in c if f.kind != 'Closure']
        if len(c) == 1:
            return c[0]
        if not c:
            raise AnchorMissing(f'function `{path}` not found in crate {self.name}')
        raise AnchorMissing(f'function `{path}` ambiguous in crate {self.name}: {[f.path for f in c][:5]}')

    def has_fn(self, path):
        try:
            self.fn(path)
            return True
        except AnchorMissing:
            return False

    def adt(self, path):
        if path in self.adts:
            return self.adts[path]
        c = [a for p, a in self.adts.items() if p.endswith('::' + path)]
        if len(c) == 1:
            return c[0]
        raise AnchorMissing(f'type `{path}` not found (or ambiguous) in crate {self.name}')

    def closures_of(self, f, transitive=True):
        out = []
        for c in self.children.get(f.path, []):
            out.append(c)
            if transitive:
                out.extend(self.closures_of(c))
        return out

    def closure(self, defpath):
        return self.fns.get(defpath)

    def user_body(self, f):
        """`async fn f` is a fn whose body is one coroutine closure expression; return that closure's Fn"""
        h = f.hir
        if h.get('k') == 'closure':
            return self.fns.get(h['def'], f)
        if h.get('k') == 'block' and not h['stmts'] and h.get('tail', {}).get('k') == 'closure' \
                and h['tail']['ckind'].startswith('coroutine'):
            return self.fns.get(h['tail']['def'], f)
        return f

    def walk_fn_deep(self, f, exclude=(), depth=2, _seen=None):
        """like walk_fn, but also enters the bodies of functions of this crate that f calls (private helpers), bounded depth;
        yields (node, ancestors, owner_fn).  `exclude`: callee paths not to enter (the functions a rule treats as events)."""
        _seen = _seen if _seen is not None else {f.path}
        known = ref_fns().get(self.name)
        for n, a in self.walk_fn(f):
            yield n, a, f
            if depth > 0 and n.get('k') == 'call':
                c = callee(n)
                g = self.fns.get(c)
                if known is not None and c not in known:
                    continue     # a function that is new relative to the reference tree: walk_fn has entered it already
                if g is not None and c not in exclude and c not in _seen and getattr(g, 'hir', None) is not None and g.kind != 'Closure':
                    _seen.add(c)
                    yield from self.walk_fn_deep(g, exclude, depth - 1, _seen)

    def walk_fn(self, f, inline_closures=True, skip=None):
        """walk a function's HIR; closure bodies (async blocks, #[instrument] wrappers, plain closures) are entered
        when inline_closures; `skip(callee_of_enclosing_call)` can veto entering closures passed to e.g. spawn."""
        seen = set()

        known = ref_fns().get(self.name)

        def rec(e, anc, depth=0):
            for n, a in walk(e, anc):
                yield n, a
                if inline_closures and n.get('k') == 'closure' and n['def'] not in seen:
                    c = self.fns.get(n['def'])
                    if c is not None:
                        if skip is not None and skip(n, a):
                            continue
                        seen.add(n['def'])
                        yield from rec(c.hir, a + (n,), depth)
                elif n.get('k') == 'call' and known is not None and depth < 3:
                    # a function that did not exist on the reference tree (a helper statements were moved into) is transparent
                    cp = callee(n)
                    g = self.fns.get(cp)
                    if g is not None and g.kind != 'Closure' and cp not in known and cp not in seen and cp != f.path and \
                            getattr(g, 'hir', None) is not None:
                        seen.add(cp)
                        yield from rec(g.hir, a + (n,), depth + 1)
        yield from rec(f.hir, ())

    def calls(self, f, pred=None, **kw):
        """all call nodes in f (closures inlined), optionally filtered by predicate on the callee path"""
        out = []
        for n, a in self.walk_fn(f, **kw):
            if n.get('k') == 'call':
                c = callee(n)
                if pred is None or pred(c):
                    out.append((n, a))
        return out

    def owner_fn(self, f):
        """top-level fn a closure belongs to"""
        while f.parent and f.parent in self.fns:
            f = self.fns[f.parent]
        return f

    def top_fns(self):
        return [f for f in self.fns.values() if f.kind != 'Closure']


class Program:
    def __init__(self, facts_dir):
        self.dir = facts_dir
        self._crates = {}
        self.bins = []
        self._lib_paths = {os.path.basename(p)[:-len('.lib.json')]: p
                           for p in sorted(glob.glob(os.path.join(facts_dir, '*.lib.json')))}
        self._bin_paths = sorted(glob.glob(os.path.join(facts_dir, '*.bin*.json')))
        self.metadata = json.load(open(os.path.join(facts_dir, 'metadata.json')))
        self.serde = json.load(open(os.path.join(facts_dir, 'serde.json')))
        self.src_root = json.load(open(os.path.join(facts_dir, 'DONE')))['root']

    def crate(self, name):
        if name not in self._crates:
            if name not in self._lib_paths:
                raise AnchorMissing(f'crate {name} not analysed')
            d = json.load(open(self._lib_paths[name]))
            self._crates[name] = Crate(d['crate'], d)
        return self._crates[name]

    def load_bins(self):
        if not self.bins:
            for p in self._bin_paths:
                d = json.load(open(p))
                self.bins.append(Crate(d['crate'] + ':bin', d))
        return self.bins

    def stats(self):
        return {c: {'functions': len([f for f in k.fns.values() if f.kind != 'Closure']),
                    'bodies': len(k.fns), 'types': len(k.adts)} for c, k in self._crates.items()}
