// serdeshape: reads Rust source files with syn and emits, for every struct/enum, its derives and all
// #[serde(..)] attributes (container, variant, field) plus the field types as written. JSON on stdout.
use serde_json::{json, Value};
use syn::visit::Visit;

fn serde_attrs(attrs: &[syn::Attribute]) -> Vec<Value> {
    let mut out = vec![];
    for a in attrs {
        if !a.path().is_ident("serde") {
            continue;
        }
        let _ = a.parse_nested_meta(|m| {
            let key = m.path.segments.iter().map(|s| s.ident.to_string()).collect::<Vec<_>>().join("::");
            if m.input.peek(syn::Token![=]) {
                let v = m.value()?;
                let e: syn::Expr = v.parse()?;
                let val = match &e {
                    syn::Expr::Lit(syn::ExprLit { lit: syn::Lit::Str(s), .. }) => s.value(),
                    other => quote::quote!(#other).to_string(),
                };
                out.push(json!({"key": key, "value": val}));
            } else if m.input.peek(syn::token::Paren) {
                // e.g. rename_all(serialize = "..", deserialize = "..")
                let mut inner = vec![];
                m.parse_nested_meta(|n| {
                    let k = n.path.segments.iter().map(|s| s.ident.to_string()).collect::<Vec<_>>().join("::");
                    let mut val = Value::Null;
                    if n.input.peek(syn::Token![=]) {
                        let v = n.value()?;
                        let e: syn::Expr = v.parse()?;
                        val = Value::String(match &e {
                            syn::Expr::Lit(syn::ExprLit { lit: syn::Lit::Str(s), .. }) => s.value(),
                            other => quote::quote!(#other).to_string(),
                        });
                    }
                    inner.push(json!({"key": k, "value": val}));
                    Ok(())
                })?;
                out.push(json!({"key": key, "nested": inner}));
            } else {
                out.push(json!({"key": key, "value": Value::Null}));
            }
            Ok(())
        });
    }
    out
}

fn derives(attrs: &[syn::Attribute]) -> Vec<String> {
    let mut out = vec![];
    for a in attrs {
        if a.path().is_ident("derive") {
            let _ = a.parse_nested_meta(|m| {
                out.push(m.path.segments.last().map(|s| s.ident.to_string()).unwrap_or_default());
                Ok(())
            });
        }
    }
    out
}

fn has_cfg_test(attrs: &[syn::Attribute]) -> bool {
    attrs.iter().any(|a| a.path().is_ident("cfg") && quote::quote!(#a).to_string().contains("test"))
}

fn fields_json(fs: &syn::Fields) -> Vec<Value> {
    fs.iter()
        .enumerate()
        .map(|(i, f)| {
            let ty = &f.ty;
            json!({
                "name": f.ident.as_ref().map(|x| x.to_string()).unwrap_or_else(|| i.to_string()),
                "ty": quote::quote!(#ty).to_string().replace(' ', ""),
                "attrs": serde_attrs(&f.attrs),
            })
        })
        .collect()
}

struct V {
    file: String,
    modpath: Vec<String>,
    types: Vec<Value>,
}
impl<'ast> Visit<'ast> for V {
    fn visit_item_mod(&mut self, m: &'ast syn::ItemMod) {
        if has_cfg_test(&m.attrs) {
            return;
        }
        self.modpath.push(m.ident.to_string());
        syn::visit::visit_item_mod(self, m);
        self.modpath.pop();
    }
    fn visit_item_enum(&mut self, i: &'ast syn::ItemEnum) {
        let variants: Vec<Value> = i
            .variants
            .iter()
            .map(|v| {
                let style = match &v.fields {
                    syn::Fields::Named(_) => "struct",
                    syn::Fields::Unnamed(f) if f.unnamed.len() == 1 => "newtype",
                    syn::Fields::Unnamed(_) => "tuple",
                    syn::Fields::Unit => "unit",
                };
                json!({"name": v.ident.to_string(), "style": style, "attrs": serde_attrs(&v.attrs), "fields": fields_json(&v.fields),
                       "discriminant": v.discriminant.as_ref().map(|(_, e)| quote::quote!(#e).to_string())})
            })
            .collect();
        self.types.push(json!({"name": i.ident.to_string(), "kind": "enum", "file": self.file, "line": i.ident.span().start().line,
            "mod": self.modpath.join("::"), "derives": derives(&i.attrs), "attrs": serde_attrs(&i.attrs), "variants": variants,
            "generics": i.generics.params.len()}));
        syn::visit::visit_item_enum(self, i);
    }
    fn visit_item_struct(&mut self, i: &'ast syn::ItemStruct) {
        let style = match &i.fields {
            syn::Fields::Named(_) => "struct",
            syn::Fields::Unnamed(f) if f.unnamed.len() == 1 => "newtype",
            syn::Fields::Unnamed(_) => "tuple",
            syn::Fields::Unit => "unit",
        };
        self.types.push(json!({"name": i.ident.to_string(), "kind": "struct", "style": style, "file": self.file, "line": i.ident.span().start().line,
            "mod": self.modpath.join("::"), "derives": derives(&i.attrs), "attrs": serde_attrs(&i.attrs), "fields": fields_json(&i.fields),
            "generics": i.generics.params.len()}));
    }
    fn visit_item_type(&mut self, i: &'ast syn::ItemType) {
        let ty = &i.ty;
        self.types.push(json!({"name": i.ident.to_string(), "kind": "alias", "file": self.file, "line": i.ident.span().start().line,
            "mod": self.modpath.join("::"), "ty": quote::quote!(#ty).to_string().replace(' ', ""), "generics": i.generics.params.len()}));
    }
}

fn main() {
    let mut types = vec![];
    let mut errors = vec![];
    for p in std::env::args().skip(1) {
        let src = match std::fs::read_to_string(&p) {
            Ok(s) => s,
            Err(e) => {
                errors.push(json!({"file": p, "error": e.to_string()}));
                continue;
            }
        };
        match syn::parse_file(&src) {
            Ok(f) => {
                let mut v = V { file: p.clone(), modpath: vec![], types: vec![] };
                v.visit_file(&f);
                types.append(&mut v.types);
            }
            Err(e) => errors.push(json!({"file": p, "error": e.to_string()})),
        }
    }
    println!("{}", json!({"types": types, "errors": errors}));
}
