"""C07 — session end buries grave goods, publishes the last will, cleans up, nothing else (structural clauses)."""
from ..ir import callee, short, walk, ctor_name, pat_variants, guards, strip_not, conjuncts, AnchorMissing
from ..trace import Tracer, ok_exits, err_exits, base, peel
from ..prov import Bindings
from .common import *
from .corefx import fallibility

NOT_DECIDED = ('the full effect on the store for overlapping registrations; the content of the notifications (C03); sessions '
               'cut off by a server shutdown (the serve future is dropped: the server is going away); REST one-shot requests '
               '(they do not register a session)')


def _front_end_tracer(prog, crate):
    """events: connected / disconnected / api:<method> (WbApi calls whose core method can fail) ; spawned tasks are reported
    under `task:`"""
    fall = fallibility(prog)

    def core_can_fail(m):
        return fall.may_err(f'{CORE}::{m}')

    def classify(nd, anc):
        if nd.get('k') != 'call':
            return None
        c = callee(nd)
        if 'WbApi for server::CloneableWbApi' in c or c.endswith('axum::connected'):
            m = short(c)
            if m == 'connected':
                return 'connected'
            if m == 'disconnected':
                return 'disconnected'
            if m in ('config',):
                return None
            return 'api:' + m
        return None

    def value_of(nd):
        core = peel(nd)
        if isinstance(core, dict) and core.get('k') == 'call' and 'WbApi for server::CloneableWbApi' in callee(core):
            m = short(callee(core))
            if m in ('connected', 'disconnected'):
                return None
            # a failure that only means "the core task is gone" is not a request failure
            return 'maybe' if core_can_fail(m) else 'ok'
        return None

    def mode(call, clo):
        if is_spawn(callee(call)):
            return ('task', 'task')
        return Tracer.default_closure_mode(call, clo)
    return Tracer(crate, classify, value_of_call=value_of, closure_mode=mode, max_paths=50000)


def rule_a(prog, rep):
    rep.rule('C07.a', 'T3', '`disconnected` is always called: in tcp::serve, unix::serve, the websocket serve function and the four '
             'SSE handlers every path on which `connected` succeeded reaches `disconnected` (directly or in the task the handler '
             'spawns); a WbApi call between the two counts as fallible iff the core method behind it can return Err')
    crate = prog.crate(WB)
    cands = []
    for f in crate.top_fns():
        if not f.path.startswith('server::'):
            continue
        cs = {short(callee(nd)) for nd, a in crate.calls(f) if 'WbApi for server::CloneableWbApi' in callee(nd) or callee(nd).endswith('axum::connected')}
        if 'connected' in cs and f.path != 'server::axum::connected':
            cands.append(f)
    n = 0
    for f in cands:
        tr = _front_end_tracer(prog, crate)
        paths = tr.run_fn(f)
        bad = None
        for (ex, t, v) in paths:
            tb = [base(x) for x in t]
            if 'connected' not in tb:
                continue
            i = tb.index('connected')
            rest = tb[i + 1:]
            if 'connected@Err' in rest[:1]:
                continue  # the session was never registered
            if 'disconnected' not in rest and 'task:disconnected' not in rest:
                bad = t
                break
        n += 1
        if bad is not None:
            rep.violation('C07.a', f.path, f.loc, f'path leaves the session registered: trace={list(bad)}', key=f'C07.a/{f.path}/leak',
                          expected='disconnected(client_id, ..) on every path after connected')
        else:
            rep.ok('C07.a', f.path, f.loc, f'{len(paths)} abstract paths; every registered session reaches disconnected')
        b = Bindings(crate, f)
        ids = set()
        for nd, a in crate.calls(f, lambda c: short(c) in ('connected', 'disconnected') and
                                 ('WbApi for server::CloneableWbApi' in c or c.endswith('axum::connected'))):
            arg = nd['args'][1]
            ids |= b.origins(arg)
        if len(ids) == 1:
            rep.ok('C07.a', f'{f.path}:id', f.loc, f'connected and disconnected use the same session id ({sorted(ids)[0][:60]})')
        else:
            rep.violation('C07.a', f'{f.path}:id', f.loc, f'connected / disconnected called with different ids: {sorted(ids)}',
                          key=f'C07.a/{f.path}/id')
    rep.floor('C07.a', n, 7, 'session-registering front-end functions')


STEPS = ['spub.remove', 'unlock_all', 'read:grave_goods', 'read:last_will', 'clients.remove', 'do_unsubscribe', 'sys:pdelete',
         'gg:pdelete', 'lw:set', 'remove_registrations']


def rule_b(prog, rep):
    rep.rule('C07.b', 'T2', 'order inside Worterbuch::disconnected: drop the spub streams and unlock_all; read the client\'s grave '
             'goods and last will BEFORE the $SYS/clients/<id>/# delete; unsubscribe every subscription; delete the $SYS '
             'subtree; bury the grave goods (loop over the list read above); THEN set the last will; finally remove the '
             'registrations from persistence; every step exactly once on every path (the two loops may iterate)')
    crate = prog.crate(WB)
    f = crate.fn(f'{CORE}::disconnected')
    b = Bindings(crate, f)

    def classify(nd, anc):
        if nd.get('k') != 'call':
            return None
        c = callee(nd)
        sh = short(c)
        if sh == 'remove' and 'HashMap' in c and nd['args']:
            s0 = str(nd['args'][0])[:400]
            if "'spub_keys'" in s0:
                return 'spub.remove'
            if "'clients'" in s0:
                return 'clients.remove'
        if c == f'{STORE}::unlock_all':
            return 'unlock_all'
        if c == f'{CORE}::grave_goods_for_client':
            return 'read:grave_goods'
        if c == f'{CORE}::last_will_for_client':
            return 'read:last_will'
        if c == f'{CORE}::do_unsubscribe':
            return 'do_unsubscribe'
        if c == f'{CORE}::pdelete':
            o = b.origins(nd['args'][2])
            if o == {'param(client_id)'}:
                return 'gg:pdelete'
            if any('INTERNAL_CLIENT_ID' in x for x in o):
                return 'sys:pdelete'
            return 'pdelete:?'
        if c == f'{CORE}::set' and len(nd['args']) > 3:
            o = b.origins(nd['args'][3])
            if o == {'param(client_id)'}:
                return 'lw:set'
            return None
        if sh == 'remove_grave_goods_and_last_will':
            return 'remove_registrations'
        return None
    paths = Tracer(crate, classify, max_paths=100000).run_fn(f)
    oks = ok_exits(paths)
    if not oks:
        raise AnchorMissing('Ok paths of disconnected')
    problems = set()
    for (ex, t, v) in oks:
        tb = [base(x) for x in t if '@' not in x]
        once = ['spub.remove', 'unlock_all', 'read:grave_goods', 'read:last_will', 'clients.remove', 'sys:pdelete', 'remove_registrations']
        for s in once:
            if tb.count(s) != 1 or (s + '*') in t:
                problems.add(f'{s} happens {tb.count(s)}x on a path')
        if 'pdelete:?' in tb:
            problems.add('pdelete with an unexpected identity')

        def idx(s):
            return tb.index(s) if s in tb else None

        def last(s):
            return max(i for i, x in enumerate(tb) if x == s) if s in tb else None
        order = [('read:grave_goods', 'sys:pdelete'), ('read:last_will', 'sys:pdelete'), ('unlock_all', 'sys:pdelete'),
                 ('sys:pdelete', 'remove_registrations')]
        for a_, b_ in order:
            if idx(a_) is not None and idx(b_) is not None and idx(a_) > idx(b_):
                problems.add(f'{a_} after {b_}')
        if 'gg:pdelete' in tb and 'lw:set' in tb and last('gg:pdelete') > idx('lw:set'):
            problems.add('last will set before the grave goods are buried')
        for s in ('gg:pdelete', 'lw:set', 'do_unsubscribe'):
            if s in tb:
                if idx(s) < idx('read:grave_goods'):
                    problems.add(f'{s} before the registrations are read')
                if s != 'do_unsubscribe' and idx('sys:pdelete') is not None and idx(s) < idx('sys:pdelete'):
                    problems.add(f'{s} before the $SYS cleanup')
                if idx('remove_registrations') is not None and last(s) > idx('remove_registrations'):
                    problems.add(f'{s} after the registrations were removed from persistence')
    # the two loops exist and iterate what was read
    for lab, src, what in (('gg:pdelete', 'grave_goods_for_client', 'grave goods'), ('lw:set', 'last_will_for_client', 'last will')):
        sites = [(nd, anc) for nd, anc in crate.walk_fn(f) if nd.get('k') == 'call' and classify(nd, anc) == lab]
        if len(sites) != 1:
            problems.add(f'{len(sites)} {lab} sites')
            continue
        fors = [a for a in sites[0][1] if a.get('k') == 'for']
        if len(fors) != 1 or not any(src in x for x in b.origins(fors[0]['iter'])):
            problems.add(f'the {what} step does not loop over the list read at the beginning')
        if not any(x == lab + '*' for (ex, t, v) in oks for x in t):
            problems.add(f'{lab} is not executed per entry')
    if problems:
        rep.violation('C07.b', 'disconnected:order', f.loc, '; '.join(sorted(problems)), key='C07.b/' + '|'.join(sorted(problems)),
                      expected=' -> '.join(STEPS))
    else:
        rep.ok('C07.b', 'disconnected:order', f.loc, f'{len(oks)} Ok paths: ' + ' -> '.join(STEPS))
    # no Err exit before the clean-up is complete
    early = [t for (ex, t, v) in err_exits(paths) if 'remove_registrations' not in [base(x) for x in t]]
    if early:
        rep.violation('C07.b', 'disconnected:early-exit', f.loc, f'an error exit skips part of the clean-up: {list(early[0])}',
                      key='C07.b/early-exit')
    else:
        rep.ok('C07.b', 'disconnected:early-exit', f.loc, 'no error exit before the last clean-up step')


def rule_c(prog, rep):
    rep.rule('C07.c', 'T7', 'whose identity: grave goods are deleted with pdelete(pattern, client_id) and last wills set with '
             'set(key, value, client_id, force = true) - the id operand is the disconnecting client (so the $SYS rules apply), '
             'force is the constant true (CAS override); the $SYS cleanup pattern is topic!($SYS, clients, client_id, "#") '
             'deleted as the internal client; the registrations read are those of this client')
    crate = prog.crate(WB)
    f = crate.fn(f'{CORE}::disconnected')
    b = Bindings(crate, f)
    res = []
    n = 0
    for nd, anc in crate.calls(f, lambda c: c == f'{CORE}::set'):
        o = b.origins(nd['args'][3])
        if o == {'param(client_id)'}:
            n += 1
            fo = b.origins(nd['args'][4])
            ko, vo = b.origins(nd['args'][1]), b.origins(nd['args'][2])
            if fo != {'lit(True)'}:
                res.append(f'last will set with force <- {sorted(fo)}')
            if not (all('last_will_for_client' in x and x.endswith('.key') for x in ko) and
                    all('last_will_for_client' in x and x.endswith('.value') for x in vo)):
                res.append(f'last will key/value <- {sorted(ko)} / {sorted(vo)}')
    for nd, anc in crate.calls(f, lambda c: c == f'{CORE}::pdelete'):
        o = b.origins(nd['args'][2])
        po = b.origins(nd['args'][1])
        if o == {'param(client_id)'}:
            n += 1
            if not all('grave_goods_for_client' in x for x in po):
                res.append(f'grave-goods pattern <- {sorted(po)}')
        elif any('INTERNAL_CLIENT_ID' in x for x in o):
            n += 1
            # the pattern is built by topic!/format! from SYSTEM_TOPIC_ROOT, SYSTEM_TOPIC_CLIENTS, client_id, "#"
            pat = b.deref_local(nd['args'][1])
            txt = str(pat)
            want = ['SYSTEM_TOPIC_ROOT', 'SYSTEM_TOPIC_CLIENTS', "'name': 'client_id'", "'v': '#'"]
            if not all(w in txt for w in want):
                res.append('$SYS cleanup pattern is not topic!($SYS, clients, client_id, "#")')
        else:
            res.append(f'pdelete with identity {sorted(o)}')
    for m in ('grave_goods_for_client', 'last_will_for_client'):
        cs = crate.calls(f, lambda c: c == f'{CORE}::{m}')
        if len(cs) != 1 or b.origins(cs[0][0]['args'][1]) != {'param(client_id)'}:
            res.append(f'{m} is not called for the disconnecting client')
        else:
            n += 1
    if res:
        rep.violation('C07.c', 'disconnected:operands', f.loc, '; '.join(res), key='C07.c/' + '|'.join(res))
    else:
        rep.ok('C07.c', 'disconnected:operands', f.loc, f'{n} operand groups derive from the disconnecting client / its registrations')
    rep.floor('C07.c', n, 5, 'identity operands')
    # *_for_client read the client's own $SYS keys
    for m, const in (('grave_goods_for_client', 'SYSTEM_TOPIC_GRAVE_GOODS'), ('last_will_for_client', 'SYSTEM_TOPIC_LAST_WILL')):
        g = crate.fn(f'{CORE}::{m}')
        txt = str(g.hir)
        if all(w in txt for w in ('SYSTEM_TOPIC_ROOT', 'SYSTEM_TOPIC_CLIENTS', const, "'name': 'client_id'")):
            rep.ok('C07.c', m, g.loc, f'reads $SYS/clients/<client_id>/{const}')
        else:
            rep.violation('C07.c', m, g.loc, 'does not read the client\'s own registration key', key=f'C07.c/{m}/key')


def rule_d(prog, rep):
    rep.rule('C07.d', 'T3', 'the disconnecting client\'s subscriptions are all unsubscribed (C03.f), its publish streams dropped '
             '(spub_keys.remove(client_id)), its client entry removed (clients.remove(client_id))')
    crate = prog.crate(WB)
    f = crate.fn(f'{CORE}::disconnected')
    b = Bindings(crate, f)
    for fld in ('spub_keys', 'clients'):
        rm = [nd for nd, a in crate.walk_fn(f) if nd.get('k') == 'call' and short(callee(nd)) == 'remove' and
              f"'{fld}'" in str(nd['args'][0])[:400]]
        if len(rm) == 1 and b.origins(rm[0]['args'][1]) == {'param(client_id)'}:
            rep.ok('C07.d', f'{fld}.remove', loc(f, rm[0]), 'entry of the disconnecting client removed')
        else:
            rep.violation('C07.d', f'{fld}.remove', f.loc, f'{fld} entry of the client is not removed', key=f'C07.d/{fld}')


def rule_e(prog, rep):
    rep.rule('C07.e', 'T3+T7', 'what is registered is recorded: in Worterbuch::subscribe / psubscribe / subscribe_ls every Ok exit that '
             'registered a subscriber (Subscribers::add_subscriber / Store::add_ls_subscriber) has also recorded it in the table '
             'unsubscribe and the session clean-up work from (self.subscriptions / self.ls_subscriptions), under '
             'SubscriptionId(client_id, transaction_id) and with the path it was registered under')
    crate = prog.crate(WB)
    for fname, reg, table in (('subscribe', 'subscribers::Subscribers::add_subscriber', 'subscriptions'),
                              ('psubscribe', 'subscribers::Subscribers::add_subscriber', 'subscriptions'),
                              ('subscribe_ls', f'{STORE}::add_ls_subscriber', 'ls_subscriptions')):
        f = crate.fn(f'{CORE}::{fname}')
        b = Bindings(crate, f)

        def is_rec(nd):
            if nd.get('k') != 'call' or short(callee(nd)) != 'insert' or not nd['args']:
                return False
            a0 = nd['args'][0]
            while a0.get('k') in ('ref',):
                a0 = a0['e']
            return a0.get('k') == 'field' and a0['name'] == table

        def classify(nd, anc):
            if nd.get('k') == 'call' and callee(nd) == reg:
                return 'reg'
            if is_rec(nd):
                return 'rec'
            return None
        paths = Tracer(crate, classify).run_fn(f)
        oks = ok_exits(paths)
        problems = []
        if not oks:
            problems.append('no Ok path')
        for (ex, t, v) in oks:
            tb = [base(x) for x in t if '@' not in x]
            if tb.count('reg') != 1 or tb.count('rec') != 1:
                problems.append(f'an Ok exit with {tb.count("reg")} registration(s) and {tb.count("rec")} record(s)')
        regs = crate.calls(f, lambda c: c == reg)
        recs = [nd for nd, a in crate.walk_fn(f) if is_rec(nd)]
        if len(regs) == 1 and len(recs) == 1:
            ko = b.origins(recs[0]['args'][1])
            kn = b.deref_local(recs[0]['args'][1])
            for _ in range(4):      # `subscription.clone()` of the id built for the subscriber is the same id
                if isinstance(kn, dict) and kn.get('k') == 'call' and short(callee(kn)) in ('clone', 'to_owned') and kn['args']:
                    kn = b.deref_local(kn['args'][0])
            if not (kn.get('k') == 'call' and short(callee(kn)) == 'new' and 'SubscriptionId' in callee(kn) and
                    b.origins(kn['args'][0]) == {'param(client_id)'} and b.origins(kn['args'][1]) == {'param(transaction_id)'}):
                problems.append(f'the record is not keyed by SubscriptionId(client_id, transaction_id) ({sorted(ko)})')
            if b.origins(recs[0]['args'][2]) != b.origins(regs[0][0]['args'][1]):
                problems.append('the recorded path is not the path the subscriber was registered under')
        else:
            problems.append(f'{len(regs)} registration sites, {len(recs)} record sites')
        if problems:
            rep.violation('C07.e', f'Worterbuch::{fname}', f.loc, '; '.join(sorted(set(problems))),
                          key=f'C07.e/{fname}/' + '|'.join(sorted({p_.split(' (')[0] for p_ in problems})))
        else:
            rep.ok('C07.e', f'Worterbuch::{fname}', f.loc, f'{len(oks)} Ok paths: one registration, one record in self.{table} under (client, transaction) with the same path')


def rule_f(prog, rep):
    rep.rule('C07.f', 'T4+T7', 'the end of a session reaches the clean-up: the Disconnected request the front ends send is mapped, in the '
             'regular / leader core loop (process_api_call) and in the follower\'s, to Worterbuch::disconnected(<that client id>, '
             '<that address>) on every path of the arm')
    from .c02 import api_match
    crate = prog.crate(WB)
    n = 0
    for fname in ('process_api_call', 'leader_follower::follower::process_api_call'):
        f = crate.fn(fname)
        b = Bindings(crate, f)
        m = api_match(crate, f)
        arm = next((a for a in m['arms'] if [short(v) for v in pat_variants(a['pat'])] == ['Disconnected']), None)
        if arm is None:
            rep.violation('C07.f', f'{short(fname)}:Disconnected', f.loc, 'no arm for WbFunction::Disconnected', key=f'C07.f/{fname}/missing')
            continue
        n += 1
        calls = [(nd, a) for nd, a in walk(arm['body']) if nd.get('k') == 'call' and callee(nd) == f'{CORE}::disconnected']
        gs = [it for nd, a in calls for it in guards(a + (nd,)) if it[0] in ('if', 'match')]
        okk = len(calls) == 1 and not gs
        if okk:
            a_ = calls[0][0]['args']
            okk = b.origins(a_[1]) == {'param(function)#Disconnected.0'} and b.origins(a_[2]) == {'param(function)#Disconnected.1'}
        if okk:
            rep.ok('C07.f', f'{short(fname)}:Disconnected', f'{f.file}:{arm.get("ln")}', 'Worterbuch::disconnected(client id, address of the request), unconditionally')
        else:
            rep.violation('C07.f', f'{short(fname)}:Disconnected', f'{f.file}:{arm.get("ln")}', 'the arm does not call Worterbuch::disconnected with the '
                          'request\'s client id and address on every path', key=f'C07.f/{fname}/Disconnected')
    rep.floor('C07.f', n, 2, 'core loops with a Disconnected arm')


RULES = [('C07.f', rule_f), ('C07.e', rule_e), ('C07.a', rule_a), ('C07.b', rule_b), ('C07.c', rule_c), ('C07.d', rule_d)]
