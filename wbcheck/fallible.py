"""Fallibility summary: may_err(f) = f can return Err (or propagate one with `?`) on some path.

Least fixpoint over the crate's own functions.  A call to a local function that cannot fail yields the value class
'ok', so a `?` applied to it creates no error path; calls that leave the crate and return a Result are 'maybe'.
"""
from .ir import callee, short
from .trace import Tracer, peel, TooComplex


class Fallibility:
    def __init__(self, crate, assume_fallible=()):
        self.crate = crate
        self.may = {}
        self.iterations = 0
        self.too_complex = set()
        self.assume = set(assume_fallible)
        self._fix()

    # value class of a call / await node
    def value_of(self, n):
        k = n.get('k')
        ty = str(n.get('ty') or '')
        if not (ty.startswith('std::result::Result<') or ty.startswith('core::result::Result<')):
            return None
        core = peel(n)
        if not isinstance(core, dict) or core.get('k') != 'call':
            return 'maybe'
        c = callee(core)
        f = self.crate.fns.get(c)
        if f is not None:
            return 'maybe' if self.may.get(c, False) else 'ok'
        if short(c) in ('map_err', 'context', 'with_context', 'into_diagnostic'):
            return None
        return 'maybe'

    def fn_may_err(self, f):
        tr = Tracer(self.crate, lambda n, a: None, value_of_call=self.value_of, max_paths=20000)
        try:
            paths = tr.run_fn(f)
        except (TooComplex, RecursionError):
            self.too_complex.add(f.path)
            return True
        for (ex, t, v) in paths:
            if ex == 'try':
                return True
            if ex == 'ret' and v in ('err', 'maybe'):
                return True
        return False

    def _fix(self):
        fns = [f for f in self.crate.fns.values() if f.kind != 'Closure']
        for f in fns:
            if f.path in self.assume:
                self.may[f.path] = True
        changed = True
        while changed and self.iterations < 30:
            changed = False
            self.iterations += 1
            for f in fns:
                if self.may.get(f.path):
                    continue
                if self.fn_may_err(f):
                    self.may[f.path] = True
                    changed = True

    def may_err(self, path):
        return self.may.get(path, False)
