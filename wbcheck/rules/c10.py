"""C10 — a crash during persistence never loses a completed flush nor mixes snapshots (structural clauses)."""
from ..ir import callee, short, walk, ctor_name, pat_variants, guards, strip_not, AnchorMissing
from ..trace import Tracer, ok_exits, err_exits, base
from ..prov import Bindings
from .common import *

NOT_DECIDED = ('the crash-point enumeration itself; torn-write and rename semantics of the file system (rename is assumed atomic, '
               'a written and re-read temporary file is assumed durable enough); the follower\'s flush cadence')

J3 = 'persistence::json::v3'
J2 = 'persistence::json::v2'


def flush_paths(prog, fname):
    crate = prog.crate(WB)
    f = crate.fn(f'{J3}::{fname}')
    b = Bindings(crate, f)

    def classify(nd, anc):
        if nd.get('k') != 'call':
            return None
        c = callee(nd)
        if c == f'{J3}::file_paths':
            w = b.origins(nd['args'][1])
            return 'select:write' if w == {'lit(True)'} else 'select:read'
        if c == f'{J3}::write_and_check':
            return 'write'
        if c.endswith('WbApi for server::CloneableWbApi>::export') or c == f'{CORE}::export':
            return 'export'
        if c.endswith('File::create'):
            return 'stamp'
        return None
    return crate, f, b, Tracer(crate, classify).run_fn(f)


def rule_writes_both(prog, rep, rid):
    """every completed flush writes the store file and the registrations file of the SAME snapshot and slot"""
    for fname in ('synchronous', 'asynchronous'):
        crate, f, b, paths = flush_paths(prog, fname)
        oks = ok_exits(paths)
        problems = []
        if not oks:
            problems.append('no Ok path')
        for (ex, t, v) in oks:
            tb = [x for x in t if '@' not in x]
            if tb.count('write') != 2:
                problems.append(f'a completed flush performs {tb.count("write")} write_and_check calls: {tb}')
            if tb.count('export') != 1:
                problems.append(f'{tb.count("export")} exports in one flush')
            if tb.count('select:write') != 1:
                problems.append(f'{tb.count("select:write")} slot selections in one flush')
        wc = crate.calls(f, lambda c: c == f'{J3}::write_and_check')
        if len(wc) == 2:
            o_store = (b.origins(wc[0][0]['args'][0]), b.origins(wc[0][0]['args'][1]), b.origins(wc[0][0]['args'][2]))
            o_reg = (b.origins(wc[1][0]['args'][0]), b.origins(wc[1][0]['args'][1]), b.origins(wc[1][0]['args'][2]))
            fp = f'call({J3}::file_paths)'
            if not (o_store[1] == {fp + '[0]'} and o_store[2] == {fp + '[1]'} and o_reg[1] == {fp + '[2]'} and o_reg[2] == {fp + '[3]'}):
                problems.append(f'files are not (store, store.sha) / (gglw, gglw.sha) of one file_paths result: {sorted(o_store[1])}, '
                                f'{sorted(o_store[2])}, {sorted(o_reg[1])}, {sorted(o_reg[2])}')
            exp = 'export'
            if not any('export' in x for x in o_store[0]):
                # json!({ "data": data }): the exported tree is an operand of the literal
                inner = b.deref_local(wc[0][0]['args'][0])
                locs = [x for x, _ in walk(inner) if x.get('k') == 'path' and x.get('res') == 'local']
                while isinstance(inner, dict) and inner.get('k') == 'call' and inner['args']:
                    inner = b.deref_local(inner['args'][0])
                    locs += [x for x, _ in walk(inner) if x.get('k') == 'path' and x.get('res') == 'local']
                if not any(any('export' in o and o.endswith('[0]') for o in b.origins(x)) for x in locs):
                    problems.append(f'store content <- {sorted(o_store[0])}')
            gl = [nd for nd, a in crate.walk_fn(f) if nd.get('k') == 'struct' and (nd.get('path') or '').endswith('GraveGoodsLastWill')]
            if len(gl) != 1:
                problems.append('registrations are not serialised as GraveGoodsLastWill')
            else:
                fo = {x['name']: b.origins(x['e']) for x in gl[0]['fields']}
                if not (all('export' in x and x.endswith('[1]') for x in fo.get('grave_goods', {'?'})) and
                        all('export' in x and x.endswith('[2]') for x in fo.get('last_will', {'?'}))):
                    problems.append(f'registrations do not come from the same export(): {fo}')
        else:
            problems.append(f'{len(wc)} write_and_check sites')
        if problems:
            rep.violation(rid, f'v3::{fname}', f.loc, '; '.join(sorted(set(problems)))[:900], key=f'{rid}/{fname}/' + '|'.join(sorted({p.split(':')[0] for p in problems})))
        else:
            rep.ok(rid, f'v3::{fname}', f.loc, 'one export, one slot, store + registrations both written on every completed flush')


def rule_a(prog, rep):
    rep.rule('C10.a', 'T2', 'commit point last: in v3::synchronous and v3::asynchronous the mutation of the slot selector '
             '(file_paths(config, write = true) -> toggle_alternating_files) must come after all write_and_check calls of that '
             'flush - the selector is what the next start reads first')
    for fname in ('synchronous', 'asynchronous'):
        crate, f, b, paths = flush_paths(prog, fname)
        bad = None
        for (ex, t, v) in ok_exits(paths):
            tb = [x for x in t if '@' not in x]
            if 'select:write' in tb and 'write' in tb and tb.index('select:write') < max(i for i, x in enumerate(tb) if x == 'write'):
                bad = tb
        if bad:
            rep.violation('C10.a', f'v3::{fname}', f.loc, f'the slot selector is flipped before the slot is written: {bad}; a crash in '
                          f'between makes the next start read the slot of the flush before last', key=f'C10.a/{fname}/selector-first',
                          expected='write both files, then flip the selector')
        elif not ok_exits(paths):
            rep.violation('C10.a', f'v3::{fname}', f.loc, 'anchor: no completed flush path', key=f'C10.a/{fname}/anchor')
        else:
            rep.ok('C10.a', f'v3::{fname}', f.loc, 'selector changes after the writes')


def _repoints_selector(crate, call, b, mod, depth=0):
    """does this call (transitively, inside persistence/json) flip the slot selector: toggle_alternating_files(.., true)?"""
    c = callee(call)
    if c.endswith('::toggle_alternating_files'):
        return b.origins(call['args'][1]) == {'lit(True)'}
    if c == f'{mod}::file_paths':
        return b.origins(call['args'][1]) == {'lit(True)'}
    g = crate.fns.get(c)
    if g is None or not c.startswith('persistence::json') or depth > 3:
        return False
    gb = Bindings(crate, g)
    return any(_repoints_selector(crate, nd, gb, mod, depth + 1) for nd, a in crate.calls(g))


def rule_b(prog, rep):
    rep.rule('C10.b', 'T2', 'the selector follows a fallback: when a loader cannot read the slot the selector designates and falls back '
             'to the other slot, it re-points the selector to the slot it loads (file_paths(config, write = true) in the Err arm), '
             'so that the next flush overwrites the unreadable slot and not the only intact snapshot; the first attempt is '
             'read-only (write = false); toggle_alternating_files touches the selector file only under `write`')
    crate = prog.crate(WB)
    n = 0
    for mod in (J3, J2):
        f = crate.fn(f'{mod}::load')
        b = Bindings(crate, f)
        # first attempt: read-only
        firsts = [(nd, anc) for nd, anc in crate.calls(f, lambda c: c == f'{mod}::file_paths')
                  if not any(it[0] == 'match' and 'Err' in {short(v) for v in pat_variants(it[2]['pat'])} for it in guards(anc + (nd,)))]
        for nd, anc in firsts:
            n += 1
            w = b.origins(nd['args'][1])
            if w == {'lit(False)'}:
                rep.ok('C10.b', f'{short(mod)}::load:first', loc(f, nd), 'the designated slot is addressed read-only')
            else:
                rep.violation('C10.b', f'{short(mod)}::load:first', loc(f, nd), f'the first attempt calls file_paths(config, write <- {sorted(w)})',
                              key=f'C10.b/{mod}/load/first-attempt-writes')
        # fallback arms: the Err arm of the match on the first try_load / try_load_grave_goods_last_will
        arms = []
        for nd, anc in crate.walk_fn(f):
            if nd.get('k') == 'match' and any(x.get('k') == 'call' and short(callee(x)).startswith('try_load') for x, _ in walk(nd['scrut'])):
                for arm in nd['arms']:
                    if {short(v) for v in pat_variants(arm['pat'])} == {'Err'}:
                        arms.append(arm)
        for i, arm in enumerate(arms):
            n += 1
            calls = [x for x, _ in walk(arm['body']) if x.get('k') == 'call']
            loads = [x for x in calls if short(callee(x)).startswith('try_load')]
            rep_ok = any(_repoints_selector(crate, x, b, mod) for x in calls)
            inst = f'{short(mod)}::load:fallback#{i + 1}'
            if loads and rep_ok:
                rep.ok('C10.b', inst, f'{f.file}:{arm.get("ln")}', 'falls back to the other slot and re-points the selector to it')
            elif loads:
                rep.violation('C10.b', inst, f'{f.file}:{arm.get("ln")}', 'the loader falls back to the other slot without re-pointing the '
                              'selector: the next flush would overwrite the only intact snapshot', key=f'C10.b/{mod}/load/fallback-keeps-selector',
                              expected='file_paths(config, true) (selector flipped to the slot that is loaded)')
            else:
                rep.violation('C10.b', inst, f'{f.file}:{arm.get("ln")}', 'no fallback load in the Err arm', key=f'C10.b/{mod}/load/no-fallback')
    rep.floor('C10.b', n, 6, 'first attempts + fallback arms')
    t = crate.fn(f'{J3}::toggle_alternating_files')
    tb = Bindings(crate, t)
    bad = []
    for nd, anc in crate.walk_fn(t):
        if nd.get('k') == 'call' and (short(callee(nd)) == 'remove_file' or callee(nd).endswith('File::create')):
            g = [it for it in guards(anc + (nd,)) if it[0] == 'if']
            def _under_write(it):
                c, pol = strip_not(it[1])     # `if write { .. }` or `if !write { return .. } ..`
                return c.get('k') == 'path' and tb.origins(c) == {'param(write)'} and (it[2] == pol)
            if not any(_under_write(it) for it in g):
                bad.append(short(callee(nd)))
    if bad:
        rep.violation('C10.b', 'toggle_alternating_files', t.loc, f'{bad} outside `if write`', key='C10.b/toggle/unguarded')
    else:
        rep.ok('C10.b', 'toggle_alternating_files', t.loc, 'the selector file is only touched under `write`')


def rule_c(prog, rep):
    rep.rule('C10.c', 'T2+T1', 'atomic replace: write_to_disk writes a temporary file derived from the target path, validates its '
             'content against the data, then renames it onto the target - in this order on every Ok path; in persistence/json '
             'File::create / write_all are reached only through write_file, the selector and the timestamp file')
    crate = prog.crate(WB)
    f = crate.fn(f'{J3}::write_to_disk')
    b = Bindings(crate, f)
    order = {f'{J3}::write_file': 'write_tmp', f'{J3}::validate_file_content': 'validate'}

    def classify(nd, anc):
        if nd.get('k') != 'call':
            return None
        c = callee(nd)
        if c in order:
            return order[c]
        if short(c) == 'rename':
            return 'rename'
        return None
    paths = Tracer(crate, classify).run_fn(f)
    oks = ok_exits(paths)
    seqs = {tuple(x for x in t if '@' not in x) for (ex, t, v) in oks}
    problems = []
    if seqs != {('write_tmp', 'validate', 'rename')}:
        problems.append(f'sequence {sorted(seqs)}')
    if not all('validate@Ok' in t for (ex, t, v) in oks):
        problems.append('rename reachable without a successful validation')
    wf = crate.calls(f, lambda c: c == f'{J3}::write_file')
    vf = crate.calls(f, lambda c: c == f'{J3}::validate_file_content')
    rn = crate.calls(f, lambda c: short(c) == 'rename')
    if len(wf) == 1 and len(vf) == 1 and len(rn) == 1:
        tmp = b.origins(wf[0][0]['args'][0])
        if tmp != b.origins(vf[0][0]['args'][0]) or tmp != b.origins(rn[0][0]['args'][0]):
            problems.append('the three steps do not work on the same temporary file')
        if b.origins(rn[0][0]['args'][1]) != {'param(path)'}:
            problems.append(f'rename target <- {sorted(b.origins(rn[0][0]["args"][1]))}')
        if b.origins(wf[0][0]['args'][1]) != {'param(data)'} or b.origins(vf[0][0]['args'][1]) != {'param(data)'}:
            problems.append('written / validated data is not the data to persist')
        tmpdef = b.deref_local(wf[0][0]['args'][0])
        txt = deep_text(crate, tmpdef)
        if '.tmp' not in txt or "'name': 'path'" not in txt:
            problems.append('temporary name is not derived from the target path')
    else:
        problems.append('anchor: write_file / validate_file_content / rename sites')
    if problems:
        rep.violation('C10.c', 'write_to_disk', f.loc, '; '.join(problems), key='C10.c/write_to_disk/' + '|'.join(p.split(':')[0] for p in problems),
                      expected='write_file(tmp) -> validate_file_content(tmp) -> rename(tmp, path)')
    else:
        rep.ok('C10.c', 'write_to_disk', f.loc, 'write tmp -> validate tmp -> rename tmp onto target')
    # validate compares what was read back with the data
    v = crate.fn(f'{J3}::validate_file_content')
    vb = Bindings(crate, v)
    mm = [(nd, a) for nd, a in crate.walk_fn(v) if ctor_name(nd) and 'DataMismatch' in ctor_name(nd)]
    good = False
    if len(mm) == 1:
        g = [it for it in guards(mm[0][1] + (mm[0][0],)) if it[0] == 'if']
        if len(g) == 1:
            c, pol = strip_not(g[0][1])
            if c.get('k') == 'binary' and c.get('op') in ('Ne', 'Eq'):
                # the error is raised exactly when the two differ
                differs_on_true = (c['op'] == 'Ne') == pol
                lo, ro = vb.origins(c['l']), vb.origins(c['r'])
                rd = [x for x, _ in crate.walk_fn(v) if x.get('k') == 'call' and short(callee(x)) == 'read_to_end']
                buf_ids = set()
                for r_ in rd:
                    for y, _ in walk(r_['args'][1] if len(r_['args']) > 1 else {}):
                        if y.get('k') == 'path' and y.get('res') == 'local':
                            buf_ids.add(y.get('id'))
                sides = [c['l'], c['r']]
                has_data = any(vb.origins(x) == {'param(data)'} for x in sides)
                has_buf = any(any(y.get('k') == 'path' and y.get('id') in buf_ids for y, _ in walk(x)) for x in sides)
                good = (g[0][2] == differs_on_true) and has_data and has_buf and bool(rd)
    # the error leaves the function (Err(..)? or return Err(..))
    if good:
        nd, anc = mm[0]
        chain = [x for x in anc if isinstance(x, dict)]
        good = any(x.get('k') in ('try', 'return') for x in chain[-3:]) or \
            (chain and chain[-1].get('k') == 'call' and short(ctor_name(chain[-1]) or '') == 'Err')
    if good:
        rep.ok('C10.c', 'validate_file_content', v.loc, 'reads the file back; Err(DataMismatch) exactly when it differs from the data')
    else:
        rep.violation('C10.c', 'validate_file_content', v.loc, 'does not fail exactly when the content read back differs from the data',
                      key='C10.c/validate')
    # write_and_check: data file then checksum file, checksum of the same data
    w = crate.fn(f'{J3}::write_and_check')
    wb_ = Bindings(crate, w)
    wd = crate.calls(w, lambda c: c == f'{J3}::write_to_disk')
    good = len(wd) == 2 and wb_.origins(wd[0][0]['args'][0]) == {'param(data)'} and wb_.origins(wd[0][0]['args'][1]) == {'param(file_path)'} and \
        any('compute_checksum' in x for x in wb_.origins(wd[1][0]['args'][0])) and wb_.origins(wd[1][0]['args'][1]) == {'param(checksum_file_path)'}
    cc = crate.calls(w, lambda c: c == f'{J3}::compute_checksum')
    good = good and len(cc) == 1 and wb_.origins(cc[0][0]['args'][0]) == {'param(data)'}
    if good:
        rep.ok('C10.c', 'write_and_check', w.loc, 'data -> file_path, checksum(data) -> checksum_file_path')
    else:
        rep.violation('C10.c', 'write_and_check', w.loc, 'data / checksum are not written to their own files', key='C10.c/write_and_check')
    # who creates files in persistence/json
    allowed = {f'{J3}::write_file', f'{J3}::toggle_alternating_files', f'{J3}::asynchronous', f'{J3}::synchronous',
               f'{J2}::toggle_alternating_files'}
    n = 0
    for fn_ in crate.top_fns():
        if not fn_.path.startswith('persistence::json'):
            continue
        for nd, anc in crate.calls(fn_, lambda c: c.endswith('File::create') or short(c) in ('write_all', 'write')):
            n += 1
            if fn_.path in allowed:
                rep.ok('C10.c', f'{fn_.path}:{short(callee(nd))}', loc(fn_, nd), 'file creation in an expected place')
            else:
                rep.violation('C10.c', f'{fn_.path}:{short(callee(nd))}', loc(fn_, nd), 'a file is created / written outside write_file, '
                              'the selector and the timestamp', key=f'C10.c/{fn_.path}/{short(callee(nd))}')
    rep.floor('C10.c', n, 4, 'file creation sites')


def rule_d(prog, rep):
    rep.rule('C10.d', 'T7', 'one snapshot per flush: the store JSON and the registrations JSON of one flush derive from one export '
             'call, all four file paths from one file_paths call, and both files are written on every completed flush')
    rule_writes_both(prog, rep, 'C10.d')


def rule_e(prog, rep):
    rep.rule('C10.e', 'T6', 'periodic and shutdown flush share the procedure: synchronous and asynchronous agree on the sequence of '
             'slot selection, file writes and timestamp; the timestamp is written last')
    seqs = {}
    for fname in ('synchronous', 'asynchronous'):
        crate, f, b, paths = flush_paths(prog, fname)
        seqs[fname] = {tuple(x for x in t if '@' not in x and x != 'export') for (ex, t, v) in ok_exits(paths)}
    if seqs['synchronous'] == seqs['asynchronous'] and seqs['synchronous']:
        s = next(iter(seqs['synchronous']))
        if s and s[-1] == 'stamp':
            rep.ok('C10.e', 'flush-siblings', '', f'both flushes: {list(s)}')
        else:
            rep.violation('C10.e', 'flush-siblings', '', f'timestamp is not the last step: {list(s)}', key='C10.e/stamp-last')
    else:
        rep.violation('C10.e', 'flush-siblings', '', f'synchronous {sorted(seqs["synchronous"])} vs asynchronous {sorted(seqs["asynchronous"])}',
                      key='C10.e/siblings-differ')
    _lock_latch(prog, rep, 'C10.e')
    # the persistence lock is consulted by both
    for fname in ('synchronous', 'asynchronous'):
        crate = prog.crate(WB)
        f = crate.fn(f'{J3}::{fname}')
        if crate.calls(f, lambda c: c.endswith('persistence::is_persistence_locked')):
            rep.ok('C10.e', f'{fname}:lock', f.loc, 'refuses to flush before the initial load has completed (StoreLocked)')
        else:
            rep.violation('C10.e', f'{fname}:lock', f.loc, 'flush does not consult the persistence lock: an empty store could overwrite '
                          'the files before the load', key=f'C10.e/{fname}/lock')


def _lock_latch(prog, rep, rid):
    """the persistence latch: unlock_persistence() stores false into the static that is_persistence_locked() loads; nothing else writes it"""
    crate = prog.crate(WB)
    u = crate.fn('persistence::unlock_persistence')
    l = crate.fn('persistence::is_persistence_locked')
    st = [nd for nd, a in crate.walk_fn(u) if nd.get('k') == 'call' and short(callee(nd)) == 'store' and 'PERSISTENCE_LOCKED' in str(nd['args'][0])[:400]]
    ld = [nd for nd, a in crate.walk_fn(l) if nd.get('k') == 'call' and short(callee(nd)) == 'load' and 'PERSISTENCE_LOCKED' in str(nd['args'][0])[:400]]
    good = len(st) == 1 and st[0]['args'][1].get('k') == 'lit' and st[0]['args'][1]['v'].get('v') is False and len(ld) == 1
    writers = []
    for f in crate.top_fns():
        for nd, a in crate.walk_fn(f):
            if nd.get('k') == 'call' and short(callee(nd)) in ('store', 'swap', 'fetch_or', 'fetch_and', 'compare_exchange') and nd['args'] and \
                    'PERSISTENCE_LOCKED' in str(nd['args'][0])[:400] and f.path != u.path:
                writers.append(f.path)
    if good and not writers:
        rep.ok(rid, 'persistence-latch', u.loc, 'unlock_persistence(): PERSISTENCE_LOCKED <- false; read by is_persistence_locked(); no other writer')
    else:
        rep.violation(rid, 'persistence-latch', u.loc, f'unlock_persistence does not release the latch is_persistence_locked reads (other writers: {writers})',
                      key=f'{rid}/persistence-latch')


def rule_f(prog, rep):
    rep.rule('C10.f', 'T3+T7+T1', 'a slot is always rewritten as a pair: every Ok exit of v3::write_and_check has written the data file '
             '(write_to_disk(data, file_path)) and then its checksum (write_to_disk(compute_checksum(data), checksum_file_path)); the '
             'function decides nothing from what is currently on disk (no read of an existing file), so a torn pair left by a '
             'crash is repaired by the next flush of that slot')
    crate = prog.crate(WB)
    f = crate.fn(f'{J3}::write_and_check')
    b = Bindings(crate, f)
    wcalls = crate.calls(f, lambda c: c == f'{J3}::write_to_disk')
    ids = {id(w[0]): i for i, w in enumerate(wcalls)}

    def classify(nd, anc):
        if nd.get('k') != 'call':
            return None
        c = callee(nd)
        if c == f'{J3}::write_to_disk':
            return f'w{ids.get(id(nd), "?")}'
        if c == f'{J3}::compute_checksum':
            return None
        sh = short(c)
        if ('fs::' in c or 'File' in c or 'OpenOptions' in c) and sh not in ('as_bytes',):
            return 'disk:' + sh
        return None
    paths = Tracer(crate, classify).run_fn(f)
    problems = []
    oks = ok_exits(paths)
    if not oks:
        problems.append('no Ok path')
    for (ex, t, v) in oks:
        tb = [x for x in t if '@' not in x]
        if [x for x in tb if x.startswith('w')] != ['w0', 'w1']:
            problems.append(f'an Ok exit without writing both files: {tb}')
    if any(x.startswith('disk:') for (ex, t, v) in paths for x in t):
        problems.append('consults / touches the disk outside write_to_disk: ' +
                        str(sorted({x for (ex, t, v) in paths for x in t if x.startswith('disk:')})))
    if len(wcalls) == 2:
        d0, p0 = b.origins(wcalls[0][0]['args'][0]), b.origins(wcalls[0][0]['args'][1])
        d1, p1 = b.origins(wcalls[1][0]['args'][0]), b.origins(wcalls[1][0]['args'][1])
        if d0 != {'param(data)'} or p0 != {'param(file_path)'}:
            problems.append(f'first write is not (data -> file_path): {sorted(d0)} -> {sorted(p0)}')
        if d1 != {f'call({J3}::compute_checksum)'} or p1 != {'param(checksum_file_path)'}:
            problems.append(f'second write is not (checksum -> checksum_file_path): {sorted(d1)} -> {sorted(p1)}')
        cc = crate.calls(f, lambda c: c == f'{J3}::compute_checksum')
        if len(cc) != 1 or b.origins(cc[0][0]['args'][0]) != {'param(data)'}:
            problems.append('the checksum is not computed from the data being written')
    else:
        problems.append(f'{len(wcalls)} write_to_disk sites')
    if problems:
        rep.violation('C10.f', 'v3::write_and_check', f.loc, '; '.join(sorted(set(problems)))[:700],
                      key='C10.f/write_and_check/' + '|'.join(sorted({p_.split(':')[0] for p_ in problems})))
    else:
        rep.ok('C10.f', 'v3::write_and_check', f.loc, 'data, then checksum of that data, unconditionally; nothing read back from the slot')


def rule_g(prog, rep):
    rep.rule('C10.g', 'T3', 'a flipped selector is followed by a write attempt: in v3::synchronous / asynchronous no step that can fail '
             '(or wait on the core) lies between the selector flip (file_paths(config, true)) and the first write_and_check - every '
             'Err exit taken after the flip has at least attempted the write; the export and the persistence-lock test come before '
             'the flip. Otherwise a failed / cancelled flush leaves the selector on the slot of the flush before last although '
             'nothing was written (the known finding F-13 concerns the crash between flip and write, not this)')
    for fname in ('synchronous', 'asynchronous'):
        crate, f, b, paths = flush_paths(prog, fname)
        bad = [t for (ex, t, v) in paths if (v == 'err' or ex in ('try',)) and 'select:write@Ok' in t and 'write' not in [x for x in t if '@' not in x]]
        # fallible steps between: report which
        if bad:
            rep.violation('C10.g', f'v3::{fname}', f.loc, f'an error exit after the selector flip without any write attempt: {list(bad[0])}',
                          key=f'C10.g/{fname}/flip-then-fail', expected='flip the selector only when the data to write is at hand')
        else:
            rep.ok('C10.g', f'v3::{fname}', f.loc, 'after the flip the next fallible step is the write itself')
        if fname == 'asynchronous':
            # the export is a request to the core (can fail / stay pending): it must precede the flip on every path
            late = [t for (ex, t, v) in paths if 'select:write' in t and 'export' in t and t.index('select:write') < t.index('export')]
            if late:
                rep.violation('C10.g', f'v3::{fname}:export-first', f.loc, 'the selector is flipped before the export request is answered',
                              key=f'C10.g/{fname}/export-after-flip')
            else:
                rep.ok('C10.g', f'v3::{fname}:export-first', f.loc, 'export (a request to the core) is answered before the selector is flipped')


RULES = [('C10.g', rule_g), ('C10.f', rule_f), ('C10.a', rule_a), ('C10.b', rule_b), ('C10.c', rule_c), ('C10.d', rule_d), ('C10.e', rule_e)]
