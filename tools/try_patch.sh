#!/bin/bash
# usage: tools/try_patch.sh <patch.diff> <Cxx> [Cyy ...]   applies the patch to /repo, runs the checks, reverts
set -u
patch=$1; shift
cd /repo
if ! git diff --quiet; then echo "repo dirty"; exit 3; fi
if ! git apply --3way "$patch" 2>/tmp/apply.err && ! git apply "$patch"; then echo "PATCH DOES NOT APPLY"; cat /tmp/apply.err; git checkout -- . ; exit 4; fi
git reset -q 2>/dev/null
cd /verif
for p in "$@"; do ./check $p 2>&1 | grep -E "VIOLATION|^  C|KNOWN|ERROR|^\[" ; done
git -C /repo checkout -- .
git -C /repo status --short | head -3
