"""C06 — a key lock has one holder, is handed over first-come and dies with its session (structural clauses)."""
from ..ir import callee, short, walk, ctor_name, pat_variants, guards, strip_not, conjuncts, AnchorMissing
from ..trace import Tracer, ok_exits, err_exits, base
from ..prov import Bindings
from .common import *

NOT_DECIDED = ('mutual exclusion over all interleavings (follows on paper from C06.a + the single-owner clause C02.c); the '
               'hand-over order under repeated / nested requests of one client; that locked_keys never holds stale paths')

LOCK = 'store::Lock'


def _is_holder_cmp(e, b, client='param(client_id)'):
    """`client_id == <lock>.holder` (either order)"""
    if e.get('k') != 'binary' or e.get('op') != 'Eq':
        return False
    lo, ro = b.origins(e['l']), b.origins(e['r'])
    return (lo == {client} and all(x.endswith('.holder') for x in ro)) or (ro == {client} and all(x.endswith('.holder') for x in lo))


def _on_holder_edge(g, b, client='param(client_id)'):
    """do the guards say `client_id == holder`?  (== on the true edge, != on the false edge, with or without `!`)"""
    for it in g:
        if it[0] != 'if':
            continue
        for c in (conjuncts(it[1]) if it[2] is True else [it[1]]):
            c, pol = strip_not(c)
            if c.get('k') == 'binary' and c.get('op') in ('Eq', 'Ne') and _is_holder_cmp(dict(c, op='Eq'), b, client):
                eq_holds = ((c['op'] == 'Eq') == pol) == it[2]
                if eq_holds:
                    return True
    return False


def _on_foreign_edge(g, b, client='param(client_id)'):
    """do the guards say `client_id != holder`?"""
    for it in g:
        if it[0] != 'if':
            continue
        for c in (conjuncts(it[1]) if it[2] is True else [it[1]]):
            c, pol = strip_not(c)
            if c.get('k') == 'binary' and c.get('op') in ('Eq', 'Ne') and _is_holder_cmp(dict(c, op='Eq'), b, client):
                if (((c['op'] == 'Eq') == pol) == it[2]) is False:
                    return True
    return False


def rule_a(prog, rep):
    rep.rule('C06.a', 'T1+T2', 'the holder changes only by hand-over: Lock.holder is written only by Lock::new (from its parameter) '
             'and, inside Lock::release, on the true edge of `client_id == self.holder`, with the id popped from the front of '
             'the candidate queue')
    crate = prog.crate(WB)
    n = 0
    for f in crate.top_fns():
        b = None
        for nd, anc in crate.walk_fn(f):
            if nd.get('k') in ('assign', 'assignop') and nd['l'].get('k') == 'field' and nd['l']['name'] == 'holder' and \
                    LOCK in str(nd['l'].get('base_ty')):
                n += 1
                b = b or Bindings(crate, f)
                g = guards(anc + (nd,))
                on_holder_edge = _on_holder_edge(g, b)
                src = b.origins(nd['r'])
                from_front = any('pop_front' in x for x in src)
                if f.path == f'{LOCK}::release' and on_holder_edge and from_front:
                    rep.ok('C06.a', 'Lock::release:holder=', loc(f, nd), 'holder <- candidates.pop_front() under client_id == self.holder')
                else:
                    rep.violation('C06.a', f'{f.path}:holder=', loc(f, nd), f'Lock.holder written (holder-edge={on_holder_edge}, '
                                  f'source={sorted(src)})', key=f'C06.a/{f.path}/holder-write',
                                  expected='only in Lock::release, under client_id == self.holder, from pop_front()')
            if nd.get('k') == 'struct' and (nd.get('path') or '').endswith(LOCK):
                n += 1
                b = b or Bindings(crate, f)
                h = [x['e'] for x in nd['fields'] if x['name'] == 'holder']
                if f.path == f'{LOCK}::new' and h and b.origins(h[0]) == {'param(client_id)'}:
                    rep.ok('C06.a', 'Lock::new', loc(f, nd), 'holder <- the creating client')
                else:
                    rep.violation('C06.a', f'{f.path}:Lock{{..}}', loc(f, nd), 'Lock constructed outside Lock::new / with a foreign holder',
                                  key=f'C06.a/{f.path}/construct')
    rep.floor('C06.a', n, 2, 'holder write sites')
    # Lock::new call sites: only on the "free" edge, for the requesting client
    for fname in ('lock', 'acquire_lock'):
        f = crate.fn(f'{STORE}::{fname}')
        b = Bindings(crate, f)
        news = [(nd, anc) for nd, anc in crate.walk_fn(f) if nd.get('k') == 'call' and callee(nd) == f'{LOCK}::new']
        good = len(news) == 1 and b.origins(news[0][0]['args'][0]) == {'param(client_id)'}
        if good:
            g = guards(news[0][1] + (news[0][0],))
            arm = [it for it in g if it[0] == 'match']
            good = bool(arm) and {short(v) for v in pat_variants(arm[-1][2]['pat'])} == {'None'} and \
                any(x.get('k') == 'call' and short(callee(x)) in ('value', 'value_mut') for x, _ in walk(arm[-1][1]))
            if not good:
                # `if let Some(lock) = node.value() { .. return }` / `let Some(..) = .. else` spelled the other way round:
                # the installation runs where the `Some` test failed
                for it in g:
                    c = it[1] if it[0] == 'if' else None
                    if c is not None and it[2] is False and c.get('k') == 'letcond' and \
                            {short(v) for v in pat_variants(c['pat'])} == {'Some'} and \
                            any(x.get('k') == 'call' and short(callee(x)) in ('value', 'value_mut') for x, _ in walk(c['init'])):
                        good = True
        if good:
            rep.ok('C06.a', f'Store::{fname}:install', loc(f, news[0][0]), 'a new Lock is installed only when the node has none, for the requester')
        else:
            rep.violation('C06.a', f'Store::{fname}:install', f.loc, 'a Lock is installed outside the free-key edge', key=f'C06.a/{fname}/install')


def rule_b(prog, rep):
    rep.rule('C06.b', 'T1', 'FIFO: Lock.candidates is only touched by push_back (queue), pop_front (hand-over), retain (a leaving '
             'client), iter_mut (adding a sender to an existing entry) and VecDeque::new')
    crate = prog.crate(WB)
    allowed = {'push_back', 'pop_front', 'retain', 'iter_mut', 'new', 'is_empty', 'len', 'iter'}
    n = 0
    for f in crate.top_fns():
        for nd, anc in crate.walk_fn(f):
            if nd.get('k') == 'call' and nd['args']:
                a0 = nd['args'][0]
                while a0.get('k') == 'ref':
                    a0 = a0['e']
                if a0.get('k') == 'field' and a0['name'] == 'candidates' and LOCK in str(a0.get('base_ty')):
                    n += 1
                    m = short(callee(nd))
                    if m in allowed:
                        rep.ok('C06.b', f'{short(f.path)}:candidates.{m}', loc(f, nd), 'FIFO-preserving access')
                    else:
                        rep.violation('C06.b', f'{f.path}:candidates.{m}', loc(f, nd), f'queue accessed with {m}',
                                      key=f'C06.b/{f.path}/{m}', expected='push_back / pop_front / retain / iter_mut')
            if nd.get('k') in ('assign',) and nd['l'].get('k') == 'field' and nd['l']['name'] == 'candidates':
                rep.violation('C06.b', f'{f.path}:candidates=', loc(f, nd), 'queue replaced wholesale', key=f'C06.b/{f.path}/assign')
    rep.floor('C06.b', n, 4, 'queue access sites')
    # retain removes exactly the leaving client
    f = crate.fn(f'{LOCK}::release')
    fb = Bindings(crate, f)
    ret = [nd for nd, a in crate.walk_fn(f) if nd.get('k') == 'call' and short(callee(nd)) == 'retain']
    good = len(ret) == 1 and _id_predicate(crate, fb, ret[0]) == 'Ne'
    if good:
        rep.ok('C06.b', 'Lock::release:retain', loc(f, ret[0]), 'drops the entries of the leaving client only (entry id != client_id)')
    else:
        rep.violation('C06.b', 'Lock::release:retain', f.loc, 'the queue filter is not `entry id != client_id`', key='C06.b/release/retain')
    # queue: a repeated request joins the client's own entry in place, a first request goes to the back
    q = crate.fn(f'{LOCK}::queue')
    qb = Bindings(crate, q)
    finds = [nd for nd, a in crate.walk_fn(q) if nd.get('k') == 'call' and short(callee(nd)) in ('find', 'position', 'find_map')]
    problems = []
    if len(finds) != 1 or _id_predicate(crate, qb, finds[0]) != 'Eq':
        problems.append("the existing entry is not looked up by `entry id == client_id`")
    pb = [nd for nd, a in crate.walk_fn(q) if nd.get('k') == 'call' and short(callee(nd)) == 'push_back']
    if len(pb) != 1:
        problems.append(f'{len(pb)} push_back sites')
    else:
        tup = pb[0]['args'][1]
        while tup.get('k') in ('ref',):
            tup = tup['e']
        if tup.get('k') != 'tuple' or qb.origins(tup['elems'][0]) != {'param(client_id)'} or \
                not any(x.get('k') == 'path' and qb.origins(x) == {'param(tx)'} for x, _ in walk(tup['elems'][1])):
            problems.append('a new entry is not (client_id, [tx])')
        g = [it for it in guards(next(a for nd, a in crate.walk_fn(q) if nd is pb[0]) + (pb[0],)) if it[0] == 'if']
        if not any(it[2] is False and any(x is finds[0] for x, _ in walk(it[1])) for it in g) if finds else True:
            problems.append('push_back is not on the not-yet-queued edge')
    pu = [(nd, a) for nd, a in crate.walk_fn(q) if nd.get('k') == 'call' and short(callee(nd)) == 'push' and 'Vec' in callee(nd)]
    if len(pu) != 1 or qb.origins(pu[0][0]['args'][1]) != {'param(tx)'} or \
            not all('find' in x or 'position' in x for x in qb.origins(pu[0][0]['args'][0])):
        problems.append("a repeated request does not add its sender to the client's existing entry in place")
    if problems:
        rep.violation('C06.b', 'Lock::queue', q.loc, '; '.join(problems), key='C06.b/queue/' + '|'.join(problems))
    else:
        rep.ok('C06.b', 'Lock::queue', q.loc, "existing entry (id == client_id): sender appended in place; otherwise push_back((client_id, [tx]))")


def _id_predicate(crate, b, call):
    """the closure given to retain / find compares an id of the visited entry with the client_id parameter: 'Eq' | 'Ne' | None"""
    cl = [a for a in call['args'] if a.get('k') == 'closure']
    if len(cl) != 1:
        return None
    body = crate.closure(cl[0]['def']).hir
    while body.get('k') == 'block' and not body.get('stmts') and 'tail' in body:
        body = body['tail']
    neg = False
    while body.get('k') == 'unary' and body.get('op') == 'Not':
        neg = not neg
        body = body['e']
    if body.get('k') != 'binary' or body.get('op') not in ('Eq', 'Ne'):
        return None
    lo, ro = b.origins(body['l']), b.origins(body['r'])
    cid = {'param(client_id)'}
    entry = lambda o: bool(o) and o != cid and all(x.startswith('param') for x in o)   # noqa: E731
    if not ((lo == cid and entry(ro)) or (ro == cid and entry(lo))):
        return None
    op = body['op']
    if neg:
        op = 'Ne' if op == 'Eq' else 'Eq'
    return op


def _is_was_holder(b, nd):
    """the first component of `lock.release(..)` (identified by provenance, not by the local's name)"""
    if not isinstance(nd, dict) or nd.get('k') != 'path' or nd.get('res') != 'local':
        return False
    o = b.origins(nd)
    return bool(o) and all('release' in x and x.endswith('[0]') for x in o)


def rule_c(prog, rep):
    rep.rule('C06.c', 'T5', 'grant tables: Store::lock: free -> install + record + Ok; own -> Ok; foreign -> Err(KeyIsLocked) and no '
             'change. Lock::release: holder & waiter -> (true, Some(new holder)); holder & none -> (true, None); non-holder -> '
             '(false, Some(holder)). Store::unlock: not locked -> Err(KeyIsNotLocked); foreign -> Err(KeyIsLocked); holder -> '
             'Ok(new holder), deleting the lock node iff there is no successor')
    crate = prog.crate(WB)
    # Store::lock
    f = crate.fn(f'{STORE}::lock')
    b = Bindings(crate, f)
    labels = {'Node::<K, V>::value': 'value', 'Node::<K, V>::value_mut': 'value', 'Node::<K, V>::set_value': 'set',
              f'{LOCK}::new': 'new', f'{LOCK}::release': 'release', f'{STORE}::delete_lock_node': 'delnode',
              f'{LOCK}::queue': 'queue'}

    def classify(nd, anc):
        k = nd.get('k')
        if k == 'call':
            c = callee(nd)
            for suf, lab in labels.items():
                if c.endswith(suf):
                    return lab
            if short(c) == 'push' and 'Vec' in c:
                return 'record'
            cn = ctor_name(nd)
            if cn and 'WorterbuchError::' in cn:
                return 'E:' + short(cn)
            if short(c) == 'and_then' and any('value_mut' in str(a)[:400] for a in nd['args']):
                return 'value'
        if k == 'binary' and nd.get('op') == 'Eq' and _is_holder_cmp(nd, classify.b):
            return 'own?'
        return None
    classify.b = b

    def lock_alias(c):
        if c.get('k') == 'binary' and c.get('op') in ('Eq', 'Ne') and _is_holder_cmp(dict(c, op='Eq'), b):
            return ('own', c['op'] == 'Ne')
        return None
    paths = Tracer(crate, classify, cond_alias=lock_alias).run_fn(f)
    rows = {}
    for (ex, t, v) in paths:
        tb = tuple(base(x) for x in t)
        kind = 'Err' if (ex == 'try' or v == 'err') else 'Ok'
        rows.setdefault((('value@Some' in tb), kind), set()).add(tb)
    res = []
    free_ok = rows.get((False, 'Ok'), set())
    if not free_ok or not all('new' in t and 'set' in t and 'record' in t for t in free_ok):
        res.append('free key: not (install, record, Ok)')
    if rows.get((False, 'Err')):
        res.append('free key can be refused')
    held_err = rows.get((True, 'Err'), set())
    if not held_err or not all(any(x == 'E:KeyIsLocked' for x in t) for t in held_err):
        res.append('foreign holder: not Err(KeyIsLocked)')
    held_ok = rows.get((True, 'Ok'), set())
    if not held_ok or any('set' in t or 'new' in t for t in held_ok | held_err):
        res.append('held key: lock is replaced / own request not granted')
    # the held-key rows are decided by `client_id == lock.holder` (any spelling): own -> Ok, foreign -> Err
    for t in held_ok:
        if '?own=1' not in t or '?own=0' in t:
            res.append('held key is not decided by `client_id == lock.holder` (then: Ok, else: Err)')
    for t in held_err:
        if '?own=0' not in t or '?own=1' in t:
            res.append('held key is not decided by `client_id == lock.holder` (then: Ok, else: Err)')
    if res:
        rep.violation('C06.c', 'Store::lock', f.loc, '; '.join(res), key='C06.c/lock/' + '|'.join(res))
    else:
        rep.ok('C06.c', 'Store::lock', f.loc, 'free -> install+record+Ok; own -> Ok; foreign -> Err(KeyIsLocked), holder untouched')
    # Lock::release - evaluated on paths, so that nested-if, guard-clause and match forms are all understood
    r = crate.fn(f'{LOCK}::release')
    rb = Bindings(crate, r)

    def rel_alias(c):
        if c.get('k') == 'binary' and c.get('op') in ('Eq', 'Ne') and _is_holder_cmp(dict(c, op='Eq'), rb):
            return ('holder', c['op'] == 'Ne')
        return None

    def rel_classify(nd, anc):
        k = nd.get('k')
        if k == 'call':
            sh = short(callee(nd))
            if sh == 'pop_front':
                return 'pop'
            if sh == 'retain':
                return 'retain'
            if sh == 'send':
                return 'send'
        if k == 'assign' and nd['l'].get('k') == 'field' and nd['l']['name'] == 'holder':
            return 'set_holder'
        if k == 'tuple' and len(nd['elems']) == 2 and nd['elems'][0].get('k') == 'lit':
            second = nd['elems'][1]
            kind = short(ctor_name(second) or '') or ('None' if str(second.get('path') or second.get('ctor_of') or '').endswith('None') else '?')
            return f"ret:{nd['elems'][0]['v']['v']},{kind}"
        return None
    rp = Tracer(crate, rel_classify, cond_alias=rel_alias, closure_mode=lambda c_, cl: 'skip').run_fn(r)
    res = []
    seen_rows = set()
    for (ex, t, v) in rp:
        tb = [base(x) for x in t]
        hold = '?holder=1' in tb
        nohold = '?holder=0' in tb
        rets = [x for x in tb if x.startswith('ret:')]
        if hold == nohold:
            res.append('a path does not decide `client_id == self.holder` exactly once')
            continue
        if hold and 'pop@Some' in tb:
            seen_rows.add('hand-over')
            if rets != ['ret:True,Some'] or 'set_holder' not in tb or 'retain' in tb:
                res.append(f'holder with a waiter: {[x for x in tb if "@" not in x and not x.startswith("?")]}')
        elif hold and 'pop@None' in tb:
            seen_rows.add('free')
            if rets != ['ret:True,None'] or 'set_holder' in tb or 'send' in tb or 'send*' in t:
                res.append(f'holder without waiter: {[x for x in tb if "@" not in x and not x.startswith("?")]}')
        elif hold:
            res.append('the holder branch does not consult the queue')
        else:
            seen_rows.add('foreign')
            if rets != ['ret:False,Some'] or 'retain' not in tb or 'pop' in tb or 'set_holder' in tb or any(base(x) == 'send' for x in t):
                res.append(f'non-holder: {[x for x in tb if "@" not in x and not x.startswith("?")]}')
    if seen_rows != {'hand-over', 'free', 'foreign'}:
        res.append(f'rows found: {sorted(seen_rows)}')
    res = sorted(set(res))
    if res:
        rep.violation('C06.c', 'Lock::release', r.loc, '; '.join(res), key='C06.c/release/' + '|'.join(x.split(':')[0] for x in res))
    else:
        rep.ok('C06.c', 'Lock::release', r.loc, 'holder: (true, Some(next)|None); other: leave queue, (false, Some(holder))')
    # Store::unlock
    u = crate.fn(f'{STORE}::unlock')
    classify.b = Bindings(crate, u)
    paths = Tracer(crate, classify).run_fn(u)
    res = []
    notlocked = [t for (ex, t, v) in paths if 'value@None' in t]
    if not notlocked or not all(any(base(x) == 'E:KeyIsNotLocked' for x in t) and 'release' not in t for t in notlocked):
        res.append('unlocked key: not Err(KeyIsNotLocked)')
    locked = [(ex, t, v) for (ex, t, v) in paths if 'value@Some' in t]
    if not locked or not all('release' in t for (ex, t, v) in locked):
        res.append('locked key: release() not called')
    ub = Bindings(crate, u)
    dn = [(nd, anc) for nd, anc in crate.walk_fn(u) if nd.get('k') == 'call' and callee(nd) == f'{STORE}::delete_lock_node']
    cond_ok = False
    if len(dn) == 1:
        g = [it for it in guards(dn[0][1] + (dn[0][0],)) if it[0] == 'if']
        # under: was_holder (else-branch of `!was_holder`) and new_holder.is_none()
        wh = any(it[2] is False and _is_was_holder(ub, strip_not(it[1])[0]) and strip_not(it[1])[1] is False for it in g)
        nh = any(it[2] is True and it[1].get('k') == 'call' and short(callee(it[1])) == 'is_none' and
                 any('release' in x and x.endswith('[1]') for x in ub.origins(it[1]['args'][0])) for it in g)
        cond_ok = wh and nh
    if not cond_ok:
        res.append('lock node is not deleted exactly when the holder released and nobody waits')
    errs = [x for x, _ in crate.walk_fn(u) if x.get('k') == 'return' and ctor_name((x.get('e') or {}).get('args', [{}])[0] if (x.get('e') or {}).get('k') == 'call' else {})]
    foreign = [nd for nd, a in crate.walk_fn(u) if nd.get('k') == 'if' and _is_was_holder(ub, strip_not(nd['cond'])[0])]
    if not foreign or not any(ctor_name(x) and 'KeyIsLocked' in ctor_name(x) for x, _ in walk(foreign[0]['then'])):
        res.append('foreign release is not refused with KeyIsLocked')
    if res:
        rep.violation('C06.c', 'Store::unlock', u.loc, '; '.join(res), key='C06.c/unlock/' + '|'.join(res))
    else:
        rep.ok('C06.c', 'Store::unlock', u.loc, 'not locked -> KeyIsNotLocked; foreign -> KeyIsLocked; holder -> release, node deleted iff no successor')


def rule_d(prog, rep):
    rep.rule('C06.d', 'T2', 'confirmation exactly when holder: every oneshot send in store.rs is either (i) in Lock::release after '
             '`self.holder = id`, to the senders queued under that id, (ii) in acquire_lock on the true edge of `client_id == '
             'lock.holder`, or (iii) in acquire_lock right after installing Lock::new(client_id)')
    crate = prog.crate(WB)
    n = 0
    for f in crate.top_fns():
        if not f.file.endswith('store.rs'):
            continue
        b = None
        for nd, anc in crate.walk_fn(f):
            if nd.get('k') == 'call' and callee(nd).endswith('oneshot::Sender::<T>::send'):
                n += 1
                b = b or Bindings(crate, f)
                g = guards(anc + (nd,))
                why = None
                if f.path == f'{LOCK}::release':
                    src = b.origins(nd['args'][0])
                    blk = [a for a in anc if a.get('k') == 'block']
                    asg_before = False
                    for blk_ in blk:
                        items = blk_['stmts'] + ([blk_['tail']] if 'tail' in blk_ else [])
                        seen_asg = False
                        for st in items:
                            if st.get('k') == 'assign' and st['l'].get('name') == 'holder':
                                seen_asg = True
                            if any(x is nd for x, _ in walk(st)) and seen_asg:
                                asg_before = True
                    if any('pop_front' in x and '[1]' in x for x in src) and asg_before:
                        why = 'after `self.holder = id`, to the senders popped with that id'
                elif f.path == f'{STORE}::acquire_lock':
                    if _on_holder_edge(g, b):
                        why = 'requester already is the holder'
                    else:
                        arm = [it for it in g if it[0] == 'match']
                        if arm and {short(v) for v in pat_variants(arm[-1][2]['pat'])} == {'None'}:
                            body = arm[-1][2]['body']
                            items = body['stmts'] + ([body['tail']] if 'tail' in body else [])
                            idx_set = [i for i, st in enumerate(items) if any(x.get('k') == 'call' and callee(x) == f'{LOCK}::new' for x, _ in walk(st))]
                            idx_snd = [i for i, st in enumerate(items) if any(x is nd for x, _ in walk(st))]
                            if idx_set and idx_snd and idx_set[0] < idx_snd[0]:
                                why = 'after installing Lock::new(client_id) on a free key'
                if why:
                    rep.ok('C06.d', f'{short(f.path)}:send', loc(f, nd), why)
                else:
                    rep.violation('C06.d', f'{f.path}:send', loc(f, nd), 'lock confirmation sent without the receiver being the holder',
                                  key=f'C06.d/{f.path}/send')
    rep.floor('C06.d', n, 3, 'confirmation sites')
    # a waiting client is queued with its sender, and only then
    f = crate.fn(f'{STORE}::acquire_lock')
    b = Bindings(crate, f)
    q = [(nd, anc) for nd, anc in crate.walk_fn(f) if nd.get('k') == 'call' and callee(nd) == f'{LOCK}::queue']
    good = len(q) == 1 and b.origins(q[0][0]['args'][1]) == {'param(client_id)'} and \
        _on_foreign_edge(guards(q[0][1] + (q[0][0],)), b)
    if good:
        rep.ok('C06.d', 'acquire_lock:queue', loc(f, q[0][0]), 'a foreign requester is queued (client_id, tx)')
    else:
        rep.violation('C06.d', 'acquire_lock:queue', f.loc, 'waiting requesters are not queued on the foreign-holder edge',
                      key='C06.d/acquire_lock/queue')


def rule_e(prog, rep):
    rep.rule('C06.e', 'T3', 'session end: Worterbuch::disconnected calls Store::unlock_all(client_id) on every path; unlock_all '
             'removes the client\'s locked_keys entry and calls unlock(client_id, path) for EVERY recorded path (no early exit '
             'from the loop); V1::acquire_lock answers Ack on grant and LockAcquisitionCancelled when the sender was dropped')
    crate = prog.crate(WB)
    d = crate.fn(f'{CORE}::disconnected')

    def classify(nd, anc):
        if nd.get('k') == 'call' and callee(nd) == f'{STORE}::unlock_all':
            return 'unlock_all'
        return None
    paths = Tracer(crate, classify, max_paths=50000).run_fn(d)
    bad = [t for (ex, t, v) in paths if [base(x) for x in t].count('unlock_all') != 1 or any(x.endswith('*') for x in t)]
    db = Bindings(crate, d)
    uc = crate.calls(d, lambda c: c == f'{STORE}::unlock_all')
    if bad or not paths:
        rep.violation('C06.e', 'disconnected:unlock_all', d.loc, f'a path through disconnected releases the client\'s locks '
                      f'{[base(x) for x in bad[0]].count("unlock_all") if bad else 0} times', key='C06.e/disconnected/unlock_all',
                      expected='exactly once on every path')
    elif len(uc) != 1 or db.origins(uc[0][0]['args'][1]) != {'param(client_id)'}:
        rep.violation('C06.e', 'disconnected:unlock_all', d.loc, 'unlock_all is not called for the disconnecting client',
                      key='C06.e/disconnected/operand')
    else:
        rep.ok('C06.e', 'disconnected:unlock_all', loc(d, uc[0][0]), f'{len(paths)} abstract paths, each calls unlock_all(client_id) once')
    u = crate.fn(f'{STORE}::unlock_all')
    ub = Bindings(crate, u)
    loops = [nd for nd, a in crate.walk_fn(u) if nd.get('k') == 'for']
    res = []
    rm = [nd for nd, a in crate.walk_fn(u) if nd.get('k') == 'call' and short(callee(nd)) == 'remove' and 'locked_keys' in str(nd['args'][0])[:300]]
    if len(rm) != 1 or ub.origins(rm[0]['args'][1]) != {'param(client_id)'}:
        res.append('locked_keys entry of the client is not removed')
    if len(loops) != 1:
        res.append(f'{len(loops)} loops')
    else:
        lp = loops[0]
        if not any('remove' in x for x in ub.origins(lp['iter'])):
            res.append('loop does not iterate the removed locked_keys entry')
        ul = [nd for nd, a in walk(lp['body']) if nd.get('k') == 'call' and callee(nd) == f'{STORE}::unlock']
        if len(ul) != 1 or ub.origins(ul[0]['args'][1]) != {'param(client_id)'}:
            res.append('unlock(client_id, path) is not called for each path')
        early = [x.get('k') for x, _ in walk(lp['body']) if x.get('k') in ('try', 'return', 'break')]
        if early:
            res.append(f'loop can be left early ({early}): later keys stay locked / queued')
    if res:
        rep.violation('C06.e', 'Store::unlock_all', u.loc, '; '.join(res), key='C06.e/unlock_all/' + '|'.join(res))
    else:
        rep.ok('C06.e', 'Store::unlock_all', u.loc, 'removes the entry, unlocks every recorded path, no early exit')
    # V1::acquire_lock answers
    a = crate.fn(f'{V1}::acquire_lock')
    ab = Bindings(crate, a)
    ms = [nd for nd, anc in crate.walk_fn(a) if nd.get('k') == 'match' and nd['scrut'].get('k') == 'await' and
          'oneshot::error::RecvError' in str(nd.get('scrut_ty'))]
    res = []
    if len(ms) != 1:
        res.append('no match on the confirmation receiver')
    else:
        # per arm of `match rx.await`: which message is sent - either inside the arm, or the arm only chooses the message that is
        # sent once after the match
        per_arm = {}
        for arm in ms[0]['arms']:
            vs = frozenset(short(v) for v in pat_variants(arm['pat']))
            sent = [server_message_sent(x, ab) for x, _ in walk(arm['body']) if x.get('k') == 'call']
            per_arm[vs] = [(s_[0], s_[1]) for s_ in sent if s_]
        if not any(per_arm.values()):
            per_arm = {}
            sends = [server_message_sent(x, ab) for x, _ in crate.walk_fn(a) if x.get('k') == 'call']
            sends = [s_ for s_ in sends if s_ and any(al[3] is ms[0]['scrut'] for al in s_.alts)]
            if len(sends) == 1:
                for (variant, payload, armvs, scrut) in sends[0].alts:
                    per_arm.setdefault(armvs, []).append((variant, payload))
        ok_arm = per_arm.get(frozenset({'Ok'}), [])
        err_arm = per_arm.get(frozenset({'Err'}), [])
        if [x[0] for x in ok_arm] != ['Ack']:
            res.append(f'grant answered with {[x[0] for x in ok_arm]}')
        if [x[0] for x in err_arm] != ['Err']:
            res.append(f'cancellation answered with {[x[0] for x in err_arm]}')
        elif not any(ctor_name(x) and 'ErrorCode::LockAcquisitionCancelled' in ctor_name(x) for x, _ in walk(err_arm[0][1] or {})) and \
                not any(ctor_name(x) and 'ErrorCode::LockAcquisitionCancelled' in ctor_name(x)
                        for arm in ms[0]['arms'] if {short(v) for v in pat_variants(arm['pat'])} == {'Err'} for x, _ in walk(arm['body'])):
            res.append('cancellation not reported as LockAcquisitionCancelled')
    if res:
        rep.violation('C06.e', 'V1::acquire_lock', a.loc, '; '.join(res), key='C06.e/acquire_lock/' + '|'.join(res))
    else:
        rep.ok('C06.e', 'V1::acquire_lock', a.loc, 'rx.await: Ok -> Ack, Err (sender dropped) -> Err{LockAcquisitionCancelled}')
    # Worterbuch::{lock, acquire_lock, release_lock} pass the request operands on
    for fname, sfn in (('lock', 'lock'), ('acquire_lock', 'acquire_lock'), ('release_lock', 'unlock')):
        f = crate.fn(f'{CORE}::{fname}')
        b = Bindings(crate, f)
        cs = crate.calls(f, lambda c: c == f'{STORE}::{sfn}')
        good = len(cs) == 1 and b.origins(cs[0][0]['args'][1]) == {'param(client_id)'} and \
            any('param(key)' in x or 'parse_segments' in x for x in b.origins(cs[0][0]['args'][2]))
        ps = crate.calls(f, lambda c: short(c) == 'parse_segments')
        good = good and len(ps) == 1 and b.origins(ps[0][0]['args'][0]) == {'param(key)'}
        if good:
            rep.ok('C06.e', f'Worterbuch::{fname}', loc(f, cs[0][0]), f'Store::{sfn}(client_id, parse_segments(key))')
        else:
            rep.violation('C06.e', f'Worterbuch::{fname}', f.loc, 'request operands are not passed on', key=f'C06.e/{fname}/operands')


def rule_f(prog, rep):
    rep.rule('C06.f', 'T3+T7', "the core hands the store's verdict on: Worterbuch::lock and release_lock apply `?` to Store::lock / "
             'Store::unlock (a refusal reaches the client, nothing is recorded for a refused request) and pass the requesting '
             "client's id and the parsed request key; acquire_lock returns the receiver Store::acquire_lock produced for that client")
    crate = prog.crate(WB)
    for fname, sfn, has_result in (('lock', 'lock', True), ('release_lock', 'unlock', True), ('acquire_lock', 'acquire_lock', False)):
        f = crate.fn(f'{CORE}::{fname}')
        b = Bindings(crate, f)
        calls = [(nd, anc) for nd, anc in crate.walk_fn(f) if nd.get('k') == 'call' and callee(nd) == f'{STORE}::{sfn}']
        problems = []
        if len(calls) != 1:
            problems.append(f'{len(calls)} calls of Store::{sfn}')
        else:
            nd, anc = calls[0]
            chain = [a for a in anc if isinstance(a, dict)]
            par = chain[-1] if chain else {}
            if par.get('k') == 'await':
                par = chain[-2] if len(chain) > 1 else {}
            if has_result and par.get('k') != 'try':
                how = short(callee(par)) if par.get('k') == 'call' else par.get('k')
                problems.append(f"the store's verdict is not propagated with `?` (consumed by `{how}`)")
            if b.origins(nd['args'][1]) != {'param(client_id)'}:
                problems.append(f"not for the requesting client ({sorted(b.origins(nd['args'][1]))})")
            po = b.origins(nd['args'][2])
            if not po or not all('parse_segments' in x for x in po):
                problems.append(f'not on the parsed request key ({sorted(po)})')
            ps = crate.calls(f, lambda c: c.endswith('parse_segments'))
            if len(ps) != 1 or b.origins(ps[0][0]['args'][0]) != {'param(key)'}:
                problems.append('the path is not parsed from the request key')
            if not has_result:
                oks = [x for x, _ in crate.walk_fn(f) if x.get('k') == 'call' and (ctor_name(x) or '').endswith('Ok') and x['args']]
                if not oks or not all(any(o.startswith(f'call({STORE}::{sfn})') and o.endswith('[0]') for o in b.origins(o_['args'][0])) and
                                      all(o.startswith(f'call({STORE}::{sfn})') for o in b.origins(o_['args'][0])) for o_ in oks):
                    problems.append('the returned receiver is not the one the store produced')
        if problems:
            rep.violation('C06.f', f'Worterbuch::{fname}', f.loc, '; '.join(problems), key=f'C06.f/{fname}/' + '|'.join(p_.split(' (')[0] for p_ in problems))
        else:
            rep.ok('C06.f', f'Worterbuch::{fname}', f.loc, f'Store::{sfn}(client_id, parse_segments(key))' + ('?' if has_result else ' -> Ok(receiver)'))


def rule_g(prog, rep):
    rep.rule('C06.g', 'T1', "releasing one key's lock touches no other lock: the lock tree mirrors the key hierarchy, so "
             'Store::ndelete_lock_nodes may only take the Lock stored at the end of the path (take_value) and prune emptied nodes '
             '(trim); dropping the sub-tree would discard the locks (holder and queue) of every key below the released one')
    from .c04 import single_key_removal_discipline
    n = single_key_removal_discipline(prog, rep, 'C06.g', ('ndelete_lock_nodes',), 'the Lock')
    rep.floor('C06.g', n, 2, 'removal operations in ndelete_lock_nodes')


RULES = [('C06.g', rule_g), ('C06.f', rule_f), ('C06.a', rule_a), ('C06.b', rule_b), ('C06.c', rule_c), ('C06.d', rule_d), ('C06.e', rule_e)]
