"""C12 — promoting a follower loses nothing that was replicated (structural clauses)."""
from ..ir import callee, short, walk, ctor_name, pat_variants, guards, strip_not, conjuncts, AnchorMissing
from ..trace import Tracer, ok_exits, err_exits, base
from ..prov import Bindings
from .common import *
from . import c11

NOT_DECIDED = ('the fail-over run itself (which node wins, when the old leader is declared dead: C19); that the follower\'s last '
               'flush happened after the last mirrored command (timing); the content of the follower\'s files (C09/C10)')

FOLLOWER = 'leader_follower::follower'


def rule_a(prog, rep):
    rep.rule('C12.a', 'T6', 'the follower knows the registrations it will have to execute at promotion: (i) the initial state sync is '
             'fully consumed (= C11.e), (ii) later registration changes and REMOVALS reach it: the leader\'s internal '
             'subscriptions forward Set and Delete of the $SYS/clients/?/graveGoods|lastWill keys with filter_sys = false, and '
             'forward_api_call lets $SYS keys pass in all four arms when filter_sys is false (= C11.b guard, C11.h)')
    # re-evaluated under this property's id so that a breach is reported here too
    class Proxy:
        def __init__(self, rep, frm, to):
            self.rep, self.frm, self.to = rep, frm, to

        def rule(self, rid, t, text):
            pass

        def _id(self, rid):
            return 'C12.a'

        def ok(self, rid, inst, loc_='', detail=''):
            self.rep.ok('C12.a', f'{rid}:{inst}', loc_, detail)

        def violation(self, rid, inst, loc_='', detail='', key=None, expected=''):
            self.rep.violation('C12.a', f'{rid}:{inst}', loc_, detail, key=(key or f'{rid}/{inst}').replace(rid, 'C12.a/' + rid, 1), expected=expected)

        def floor(self, rid, found, minimum, what):
            self.rep.floor('C12.a', found, minimum, f'{rid} {what}')

        def note(self, t):
            self.rep.note(t)

        @property
        def analysed(self):
            return self.rep.analysed
    px = Proxy(rep, None, None)
    c11.rule_e(prog, px)
    c11.rule_h(prog, px)
    # the $SYS guard of the four mirrored arms
    crate = prog.crate(WB)
    f, m = c11._forward_match(crate)
    b = Bindings(crate, f)
    for arm in m['arms']:
        for v in pat_variants(arm['pat']):
            sv = short(v)
            if sv not in c11.MIRROR:
                continue
            # (found through crate.walk_fn so that closures - `cond.then(|| Cmd(..))` - and new helper functions are entered)
            ctors = [(nd, anc) for nd, anc in crate.walk_fn(f) if ctor_name(nd) and 'ClientWriteCommand::' in ctor_name(nd) and
                     any(a_ is arm['body'] for a_ in anc)]
            good = False
            for nd, anc in ctors:
                g = [it for it in guards(anc + (nd,)) if it[0] == 'if']
                good = good or any(c11._sys_guard_ok(it[1], b, f'#{sv}.0', it[2]) for it in g)
            if good:
                rep.ok('C12.a', f'forward_api_call:{sv}:guard', f'{f.file}:{arm.get("ln")}', '$SYS keys pass when filter_sys = false')
            else:
                rep.violation('C12.a', f'forward_api_call:{sv}:guard', f'{f.file}:{arm.get("ln")}', f'the {sv} arm drops $SYS keys even when '
                              'filter_sys = false: the follower never learns that a registration changed / went away',
                              key=f'C12.a/forward/{sv}/guard', expected='!filter_sys || !key.starts_with(SYSTEM_TOPIC_ROOT_PREFIX)')


def rule_b(prog, rep):
    rep.rule('C12.b', 'T2', 'roles imply persistence: wherever Config.follower / Config.leader are written, the derivation `follower || '
             'leader => use_persistence = true` is evaluated after the last of those writes (in Config::new: apply_args runs after '
             'load_env, so the derivation must follow the assignments inside apply_args or come after the call)')
    crate = prog.crate(WB)
    writers = []
    for f in crate.top_fns():
        if not f.path.startswith('config::Config::'):
            continue
        ws = [nd for nd, a in crate.walk_fn(f) if nd.get('k') == 'assign' and nd['l'].get('k') == 'field' and
              nd['l']['name'] in ('follower', 'leader') and 'config::Config' in str(nd['l'].get('base_ty'))]
        if ws:
            writers.append((f, ws))
    if not writers:
        raise AnchorMissing('assignments to Config.follower / Config.leader')

    derive_nodes = set()
    for f in crate.top_fns():
        if not f.path.startswith('config::Config::'):
            continue
        for nd, anc in crate.walk_fn(f):
            if nd.get('k') == 'assign' and nd['l'].get('k') == 'field' and nd['l']['name'] == 'use_persistence' and \
                    nd['r'].get('k') == 'lit' and nd['r']['v'].get('v') is True:
                for it in guards(anc + (nd,)):
                    if it[0] == 'if' and it[2] is True and it[1].get('op') == 'Or':
                        txt = str(it[1])
                        if "'name': 'follower'" in txt and "'name': 'leader'" in txt:
                            derive_nodes.add(id(nd))

    def classify(nd, anc):
        k = nd.get('k')
        if k == 'assign' and nd['l'].get('k') == 'field' and 'config::Config' in str(nd['l'].get('base_ty')):
            if nd['l']['name'] in ('follower', 'leader'):
                return 'role='
            if nd['l']['name'] == 'use_persistence':
                return 'derive' if id(nd) in derive_nodes else 'persist='
        if k == 'call':
            c = callee(nd)
            if c.startswith('config::Config::') and short(c) in ('apply_args', 'load_env', 'load_env_with_prefix'):
                return 'call:' + short(c)
        return None
    summaries = {}
    for f in crate.top_fns():
        if f.path.startswith('config::Config::'):
            tr = Tracer(crate, classify, cond_events=('follower', 'leader'))
            summaries[short(f.path)] = tr.run_fn(f)

    def expand_all(t, depth=0):
        """all event sequences of a trace, with the calls of Config methods replaced by each of the callee's own sequences"""
        seqs = [[]]
        for ev in t:
            b_ = base(ev)
            if '@' in b_:
                continue
            if b_.startswith('call:') and depth < 3:
                sub = summaries.get(b_[5:], set())
                subseqs = set()
                for (ex_, tt, v_) in sub:
                    if v_ == 'err':
                        continue
                    for q in expand_all(tt, depth + 1):
                        subseqs.add(tuple(q))
                subseqs = subseqs or {()}
                seqs = [a + list(q) for a in seqs for q in subseqs]
                if len(seqs) > 4000:
                    raise TooComplex('Config::new: too many configuration paths')
            else:
                seqs = [a + [b_] for a in seqs]
        return seqs
    new = crate.fn('config::Config::new')
    bad = None
    overridden = None
    cnt = 0
    for (ex, t, v) in ok_exits(summaries['new']):
        for seq in expand_all(t):
            if 'role=' not in seq:
                continue
            cnt += 1
            last = max(i for i, x in enumerate(seq) if x == 'role=')
            rest = seq[last + 1:]
            gpos = [i for i, x in enumerate(rest) if x.startswith('?follower=')]
            if not gpos:
                bad = seq          # the guard `follower || leader` is never evaluated once the roles are known
                continue
            # callee paths are combined freely: drop combinations that read one role with two different values
            if len({x for x in rest if x.startswith('?follower=')}) > 1 or len({x for x in rest if x.startswith('?leader=')}) > 1:
                continue
            g = gpos[0]
            after = rest[g:]
            role_set = '?follower=1' in rest or '?leader=1' in rest
            if role_set and 'derive' not in after:
                bad = seq
            elif role_set and 'persist=' in after[after.index('derive'):]:
                overridden = seq
    if overridden is not None and bad is None:
        rep.violation('C12.b', 'Config::new', new.loc, f'after `follower || leader => use_persistence` was applied, use_persistence is '
                      f'assigned again from another source: {overridden}: a role no longer implies persistence (e.g. an explicit '
                      f'USE_PERSISTENCE=false in the environment wins over --follower)', key='C12.b/Config::new/derivation-overridden',
                      expected='nothing overrides use_persistence after the role derivation')
    if bad is not None:
        rep.violation('C12.b', 'Config::new', new.loc, f'roles are written after the last evaluation of `follower || leader => '
                      f'use_persistence`: {bad}: --leader / --follower do not imply persistence', key='C12.b/Config::new/derive-before-roles',
                      expected='the derivation after the last write of follower / leader')
    elif cnt == 0:
        rep.violation('C12.b', 'Config::new', new.loc, 'anchor: no path of Config::new writes the roles', key='C12.b/Config::new/anchor')
    else:
        rep.ok('C12.b', 'Config::new', new.loc, f'{cnt} paths: the derivation follows the last role assignment')


def rule_c(prog, rep):
    rep.rule('C12.c', 'T3', 'the follower persists what it received: run_in_follower_mode performs initial_sync -> unlock_persistence -> '
             'flush in this order; its main loop has a persistence_interval.tick() arm that flushes; shutdown applies all grave '
             'goods / last wills and flushes under use_persistence; the follower starts from an empty store, not from old files')
    crate = prog.crate(WB)
    f = crate.fn(f'{FOLLOWER}::run_in_follower_mode')
    order = {f'{FOLLOWER}::initial_sync': 'sync', 'persistence::unlock_persistence': 'unlock', f'{CORE}::flush': 'flush',
             'shutdown': 'shutdown', f'{FOLLOWER}::try_flush': 'tick_flush', f'{FOLLOWER}::try_process_leader_message': 'apply'}

    def classify(nd, anc):
        if nd.get('k') != 'call':
            return None
        c = callee(nd)
        for k_, lab in order.items():
            if c == k_ or c.endswith('::' + k_):
                return lab
        return None
    paths = Tracer(crate, classify, max_paths=50000).run_fn(f)
    oks = ok_exits(paths)
    problems = []
    if not oks:
        problems.append('no Ok path')
    for (ex, t, v) in oks:
        tb = [base(x) for x in t if '@' not in x]
        head = [x for x in tb if x in ('sync', 'unlock', 'flush')][:3]
        if head != ['sync', 'unlock', 'flush']:
            problems.append(f'start-up sequence {head}' + (' - a path reaches shutdown() (which flushes) before the initial sync: the empty '
                            'start-up store would overwrite what the follower replicated earlier' if 'shutdown' in tb and 'sync' not in tb else ''))
        if 'shutdown' not in tb:
            problems.append('a normal exit without shutdown()')
    if not any('tick_flush*' in t for (ex, t, v) in paths):
        problems.append('the main loop has no periodic flush arm')
    if not any('apply*' in t for (ex, t, v) in paths):
        problems.append('the main loop does not apply leader messages')
    tf = crate.fn(f'{FOLLOWER}::try_flush')
    if not crate.calls(tf, lambda c: c == f'{CORE}::flush'):
        problems.append('try_flush does not flush')
    txt = deep_text(crate, f.hir) + ' '.join(str(c.hir) for c in crate.closures_of(f))
    if 'persistence_interval' not in txt or "'tick'" not in txt and 'tick' not in txt:
        problems.append('no persistence_interval.tick()')
    if problems:
        rep.violation('C12.c', 'run_in_follower_mode', f.loc, '; '.join(sorted(set(problems))), key='C12.c/follower/' + '|'.join(sorted(set(problems))))
    else:
        rep.ok('C12.c', 'run_in_follower_mode', f.loc, 'sync -> unlock -> flush; periodic flush arm; shutdown on exit')
    from .c10 import _lock_latch
    _lock_latch(prog, rep, 'C12.c')
    s = crate.fn('shutdown')
    sb = Bindings(crate, s)

    def cl2(nd, anc):
        if nd.get('k') != 'call':
            return None
        c = callee(nd)
        if c == f'{CORE}::apply_all_grave_goods_and_last_wills':
            return 'apply_all'
        if c == f'{CORE}::flush':
            return 'flush'
        return None
    paths = Tracer(crate, cl2, cond_events=('use_persistence',)).run_fn(s)
    good = False
    bad = []
    for (ex, t, v) in ok_exits(paths):
        tb = [base(x) for x in t if '@' not in x]
        if '?use_persistence=1' in tb:
            if [x for x in tb if x in ('apply_all', 'flush')] == ['apply_all', 'flush']:
                good = True
            else:
                bad.append(tb)
    if good and not bad:
        rep.ok('C12.c', 'shutdown', s.loc, 'under use_persistence: apply all grave goods and last wills, then flush')
    else:
        rep.violation('C12.c', 'shutdown', s.loc, f'shutdown with persistence does {bad or "nothing"}', key='C12.c/shutdown',
                      expected='apply_all_grave_goods_and_last_wills -> flush')
    a = crate.fn(f'{CORE}::apply_all_grave_goods_and_last_wills')
    cs = [short(callee(nd)) for nd, an in crate.calls(a, lambda c: c.startswith(CORE + '::'))]
    if [x for x in cs if x in ('apply_grave_goods', 'apply_last_wills')] == ['apply_grave_goods', 'apply_last_wills'] and \
            'grave_goods' in cs and 'last_wills' in cs:
        rep.ok('C12.c', 'apply_all_grave_goods_and_last_wills', a.loc, 'grave goods of all clients first, then all last wills')
    else:
        rep.violation('C12.c', 'apply_all_grave_goods_and_last_wills', a.loc, f'calls {cs}', key='C12.c/apply_all')
    # PersistentStorageImpl::load: a follower starts empty (its files belong to an earlier term); everyone else loads
    ld = crate.fn('persistence::PersistentStorageImpl::load')
    ifs = [nd for nd, an in crate.walk_fn(ld) if nd.get('k') == 'if' and "'name': 'follower'" in str(nd['cond'])]
    if ifs and any(callee(x) == f'{CORE}::with_config' for x, _ in walk(ifs[0]['then']) if x.get('k') == 'call') and \
            any(short(callee(x)) == 'load' for x, _ in walk(ifs[0].get('else', {})) if x.get('k') == 'call'):
        rep.ok('C12.c', 'PersistentStorageImpl::load', ld.loc, 'follower: empty store (then synced); leader / regular: load the files')
    else:
        rep.violation('C12.c', 'PersistentStorageImpl::load', ld.loc, 'the role split of load changed', key='C12.c/load')


def rule_d(prog, rep):
    rep.rule('C12.d', 'T2', 'restore before serving: in do_run_worterbuch persistence::restore completes before any server subsystem '
             '(web, tcp, unix) is spawned and before the core loop starts; restore installs the storage, loads (applying the '
             'persisted registrations: C09.e / C18.d) and only then unlocks persistence')
    crate = prog.crate(WB)
    f = crate.fn('do_run_worterbuch')

    def classify(nd, anc):
        if nd.get('k') != 'call':
            return None
        c = callee(nd)
        if c == 'persistence::restore':
            return 'restore'
        if short(c) == 'spawn' and ('Subsystem' in c or 'tosub' in c):
            txt = str(nd['args'][1])[:200] if len(nd['args']) > 1 else ''
            for s in ('webserver', 'tcpserver', 'unixsocket', 'stats'):
                if s in txt:
                    return 'spawn:' + s
            return 'spawn:?'
        if c.endswith('run_in_leader_mode') or c.endswith('run_in_follower_mode') or c.endswith('run_in_regular_mode'):
            return 'run:' + short(c)
        return None
    paths = Tracer(crate, classify, max_paths=50000).run_fn(f)
    problems = []
    seen_run = set()
    for (ex, t, v) in paths:
        tb = [base(x) for x in t if '@' not in x]
        acts = [x for x in tb if x.startswith('spawn:') or x.startswith('run:')]
        if acts and ('restore' not in tb or tb.index('restore') > tb.index(acts[0])):
            problems.append(f'{acts[0]} before restore')
        seen_run |= {x for x in tb if x.startswith('run:')}
    if seen_run != {'run:run_in_leader_mode', 'run:run_in_follower_mode', 'run:run_in_regular_mode'}:
        problems.append(f'modes started: {sorted(seen_run)}')
    if problems:
        rep.violation('C12.d', 'do_run_worterbuch', f.loc, '; '.join(sorted(set(problems))), key='C12.d/' + '|'.join(sorted(set(problems))))
    else:
        rep.ok('C12.d', 'do_run_worterbuch', f.loc, 'restore precedes every server spawn and every mode loop')
    # mode selection by the role flags
    b = Bindings(crate, f)
    for fn_, flag, pol in (('run_in_follower_mode', 'follower', True), ('run_in_leader_mode', 'leader', True)):
        cs = [(nd, anc) for nd, anc in crate.walk_fn(f) if nd.get('k') == 'call' and callee(nd).endswith(fn_)]
        good = False
        if len(cs) == 1:
            g = [it for it in guards(cs[0][1] + (cs[0][0],)) if it[0] == 'if']
            good = any(it[2] is pol and it[1].get('k') == 'field' and it[1]['name'] == flag for it in g)
        if good:
            rep.ok('C12.d', f'mode:{flag}', loc(f, cs[0][0]), f'{fn_} iff config.{flag}')
        else:
            rep.violation('C12.d', f'mode:{flag}', f.loc, f'{fn_} is not selected by config.{flag}', key=f'C12.d/mode/{flag}')
    r = crate.fn('persistence::restore')

    def cl3(nd, anc):
        if nd.get('k') != 'call':
            return None
        c = callee(nd)
        if c == 'persistence::PersistentStorageImpl::load':
            return 'load'
        if c == f'{CORE}::set_persistent_storage':
            return 'install'
        if c == 'persistence::unlock_persistence':
            return 'unlock'
        return None
    paths = Tracer(crate, cl3).run_fn(r)
    seqs = {tuple(base(x) for x in t if '@' not in x) for (ex, t, v) in ok_exits(paths)}
    if seqs == {('load', 'install', 'unlock')}:
        rep.ok('C12.d', 'persistence::restore', r.loc, 'load -> set_persistent_storage -> unlock_persistence')
    else:
        rep.violation('C12.d', 'persistence::restore', r.loc, f'sequence {sorted(seqs)}', key='C12.d/restore', expected='load, install, unlock')


def rule_e(prog, rep):
    rep.rule('C12.e', 'T7/T8', 'orchestrator role flags: leader::cmd starts the server with --leader and --sync-port <config.sync_port>; '
             'follower::cmd with --follower and --leader-address <addr>, where addr is peers.sync_addr(leader_heartbeat.node_id) '
             'of the heartbeat that made this node a follower; these command lines are the only arguments to '
             'proc_manager.restart')
    crate = prog.crate(ORCH)
    lc = crate.fn('leader::cmd')
    lb = Bindings(crate, lc)

    def strs(f):
        out = []
        for nd, a in crate.walk_fn(f):
            if nd.get('k') == 'lit' and nd['v'].get('t') == 'str' and not nd.get('x'):
                out.append(nd['v']['v'])
        return out
    ls = strs(lc)
    arr = [nd for nd, a in crate.walk_fn(lc) if nd.get('k') == 'call' and short(callee(nd)) in ('into_vec', 'box_new', 'from') or nd.get('k') == 'array']
    problems = []
    if '--leader' not in ls or '--sync-port' not in ls or '--follower' in ls:
        problems.append(f'flags {ls}')
    # the element after "--sync-port" derives from config.sync_port
    elems = None
    for nd, a in crate.walk_fn(lc):
        if nd.get('k') == 'array' and len(nd['elems']) >= 3:
            elems = nd['elems']
    if elems:
        vals = [lb.origins(e) for e in elems]
        idx = [i for i, o in enumerate(vals) if o == {'lit(--sync-port)'}]
        if not idx or idx[0] + 1 >= len(vals) or not all('param(config).sync_port' in x for x in vals[idx[0] + 1]):
            problems.append(f'--sync-port value <- {vals[idx[0] + 1] if idx and idx[0] + 1 < len(vals) else "?"}')
    else:
        problems.append('argument vector not found')
    if problems:
        rep.violation('C12.e', 'leader::cmd', lc.loc, '; '.join(problems), key='C12.e/leader::cmd')
    else:
        rep.ok('C12.e', 'leader::cmd', lc.loc, '--leader --sync-port <config.sync_port>')
    fc = crate.fn('follower::cmd')
    fb = Bindings(crate, fc)
    fs = strs(fc)
    problems = []
    if '--follower' not in fs or '--leader-address' not in fs or '--leader' in fs:
        problems.append(f'flags {fs}')
    elems = None
    for nd, a in crate.walk_fn(fc):
        if nd.get('k') == 'array' and len(nd['elems']) >= 3:
            elems = nd['elems']
    if elems:
        vals = [fb.origins(e) for e in elems]
        idx = [i for i, o in enumerate(vals) if o == {'lit(--leader-address)'}]
        if not idx or idx[0] + 1 >= len(vals) or vals[idx[0] + 1] != {'param(leader)'}:
            problems.append(f'--leader-address value <- {vals[idx[0] + 1] if idx and idx[0] + 1 < len(vals) else "?"}')
    else:
        problems.append('argument vector not found')
    if problems:
        rep.violation('C12.e', 'follower::cmd', fc.loc, '; '.join(problems), key='C12.e/follower::cmd')
    else:
        rep.ok('C12.e', 'follower::cmd', fc.loc, '--follower --leader-address <leader>')
    fo = crate.fn('follower::follow')
    fob = Bindings(crate, fo)
    cc = crate.calls(fo, lambda c: c == 'follower::cmd')
    rs = crate.calls(fo, lambda c: short(c) == 'restart')
    good = len(cc) == 1 and len(rs) == 1 and any('sync_addr' in x for x in fob.origins(cc[0][0]['args'][0])) and \
        any('follower::cmd' in x for x in fob.origins(rs[0][0]['args'][1]))
    sa = crate.calls(fo, lambda c: short(c) == 'sync_addr')
    good = good and len(sa) == 1 and fob.origins(sa[0][0]['args'][1]) == {'param(leader_heartbeat).node_id'}
    if good:
        rep.ok('C12.e', 'follower::follow', fo.loc, 'restart(cmd(peers.sync_addr(leader_heartbeat.node_id)))')
    else:
        rep.violation('C12.e', 'follower::follow', fo.loc, 'the follower is not started towards the sync address of the announced leader',
                      key='C12.e/follow')
    le = crate.fn('leader::lead')
    leb = Bindings(crate, le)
    rs = crate.calls(le, lambda c: short(c) == 'restart')
    if len(rs) == 1 and any('leader::cmd' in x for x in leb.origins(rs[0][0]['args'][1])):
        rep.ok('C12.e', 'leader::lead', le.loc, 'restart(cmd(config))')
    else:
        rep.violation('C12.e', 'leader::lead', le.loc, 'the leader process is not started with leader::cmd', key='C12.e/lead')
    # the server honours the flags: Args -> Config
    wb = prog.crate(WB)
    aa = wb.fn('config::Config::apply_args')
    ab = Bindings(wb, aa)
    want = {'follower': 'param(args).follower', 'leader': 'param(args).leader', 'sync_port': 'param(args).sync_port',
            'leader_address': 'param(args).leader_address'}
    got = {}
    for nd, a in wb.walk_fn(aa):
        if nd.get('k') == 'assign' and nd['l'].get('k') == 'field' and nd['l']['name'] in want:
            got[nd['l']['name']] = ab.origins(nd['r'])
    bad = {k: sorted(v) for k, v in got.items() if v != {want[k]}}
    if not bad and set(got) == set(want):
        rep.ok('C12.e', 'Config::apply_args', aa.loc, 'follower / leader / sync_port / leader_address <- the same-named arguments')
    else:
        rep.violation('C12.e', 'Config::apply_args', aa.loc, f'role arguments: {bad or sorted(set(want) - set(got))}', key='C12.e/apply_args')


RULES = [('C12.a', rule_a), ('C12.b', rule_b), ('C12.c', rule_c), ('C12.d', rule_d), ('C12.e', rule_e)]
