"""C11 — a follower converges to the leader's data (structural clauses)."""
from ..ir import callee, short, walk, ctor_name, pat_variants, guards, strip_not, conjuncts, AnchorMissing
from ..trace import Tracer, ok_exits, err_exits, base
from ..prov import Bindings
from ..tables import NoMatch
from .common import *
from . import c02

NOT_DECIDED = ('convergence for all histories and join points; behaviour of the TCP sync stream (loss, reordering are excluded by '
               'TCP); what a follower does with a command the leader itself rejected beyond replaying the same decision '
               '(C11.b: force = false makes the follower re-run the leader\'s check on the same state)')

LEADER = 'leader_follower::leader'
FOLLOWER = 'leader_follower::follower'
CORE_WRITERS = ('set', 'cset', 'delete', 'pdelete', 'internal_pdelete', 'import')


def _key_class(crate, f, b, e, depth=0):
    """'sys' if the key expression is built from SYSTEM_TOPIC_ROOT (directly, through locals, or through a parameter that every
    caller inside `Worterbuch` fills with such a key), 'user' otherwise"""
    names = [p.get('name') for p in f.params if isinstance(p, dict)]

    def param_sys(pname):
        if depth >= 2 or pname == 'self' or pname not in names:
            return False
        idx = names.index(pname)
        classes = set()
        for g in crate.top_fns():
            if not g.path.startswith(CORE + '::') or g.path == f.path:
                continue
            gb = None
            for nd, a in crate.calls(g, lambda c: c == f.path):
                gb = gb or Bindings(crate, g)
                if idx < len(nd['args']):
                    classes.add(_key_class(crate, g, gb, nd['args'][idx], depth + 1))
        return bool(classes) and classes == {'sys'}

    def mentions_root(x, lvl=0, seen=None):
        seen = seen if seen is not None else set()
        if 'SYSTEM_TOPIC_ROOT' in deep_text(crate, x):
            return True
        if lvl >= 3 or not isinstance(x, dict):
            return False
        for nd, a in walk(x):
            if nd.get('k') == 'path' and nd.get('res') == 'local' and nd.get('id') not in seen:
                seen.add(nd.get('id'))
                bd = b.by_id.get(nd.get('id'))
                dd = b.deref_local(nd)
                if dd is not nd and isinstance(dd, dict) and dd.get('k') != 'path':
                    if mentions_root(dd, lvl + 1, seen):
                        return True
                else:
                    o = b.origins(nd)
                    if len(o) == 1 and next(iter(o)).startswith('param(') and next(iter(o)).endswith(')'):
                        if param_sys(next(iter(o))[6:-1]):
                            return True
        return False
    return 'sys' if mentions_root(b.deref_local(e) if isinstance(e, dict) else e) or mentions_root(e) else 'user'


def writes_user_keys(crate, mname, seen=None):
    """does Worterbuch::<mname> (transitively through other Worterbuch methods) change keys outside $SYS?"""
    seen = seen or set()
    if mname in seen:
        return False, None
    seen.add(mname)
    f = crate.fn(f'{CORE}::{mname}')
    direct = [nd for nd, a in crate.calls(f, lambda c: c.startswith(STORE + '::') and short(c) in
                                          ('insert_plain', 'insert_cas', 'insert', 'delete', 'delete_matches', 'merge'))]
    if direct:
        return True, f'{mname} calls Store::{short(callee(direct[0]))} with the request key'
    b = Bindings(crate, f)
    for nd, a in crate.calls(f, lambda c: c.startswith(CORE + '::')):
        m = short(callee(nd))
        if m in CORE_WRITERS:
            kc = _key_class(crate, f, b, nd['args'][1])
            if kc == 'user':
                return True, f'{mname} calls Worterbuch::{m} with a key that is not built from $SYS'
        elif m not in seen and crate.has_fn(f'{CORE}::{m}'):
            w, why = writes_user_keys(crate, m, seen)
            if w and m not in CORE_WRITERS:
                return True, f'{mname} -> {why}'
    return False, None


def _forward_match(crate):
    f = crate.fn('forward_api_call')
    ms = [nd for nd, a in crate.walk_fn(f) if nd.get('k') == 'match' and 'WbFunction' in str(nd.get('scrut_ty'))]
    if len(ms) != 1:
        raise AnchorMissing('match over WbFunction in forward_api_call')
    return f, ms[0]


def rule_a(prog, rep):
    rep.rule('C11.a', 'T4+call graph', 'the mirror table is complete: for every WbFunction variant whose regular process_api_call arm '
             'calls a core method that (transitively) changes keys outside $SYS, the leader loop produces a ClientWriteCommand '
             '(a non-None arm in forward_api_call, or the Import special case of try_forward_api_call)')
    crate = prog.crate(WB)
    pf = crate.fn('process_api_call')
    pm = c02.api_match(crate, pf)
    f, m = _forward_match(crate)
    mirrored = {}
    for arm in m['arms']:
        ctors = {short(ctor_name(nd)) for nd, a in crate.walk_fn(f) if ctor_name(nd) and 'ClientWriteCommand::' in ctor_name(nd) and
                 any(a_ is arm['body'] for a_ in a)}       # through closures (`cond.then(|| Cmd(..))`) and new helpers
        for v in pat_variants(arm['pat']):
            if v == '_':
                rep.violation('C11.a', 'forward_api_call:catch-all', f'{f.file}:{arm.get("ln")}', 'catch-all arm hides request kinds',
                              key='C11.a/forward_api_call/catch-all')
            else:
                mirrored[short(v)] = ctors
    tf = crate.fn(f'{LEADER}::try_forward_api_call')
    special = set()
    for nd, a in crate.walk_fn(tf):
        if nd.get('k') == 'match':
            for arm in nd['arms']:
                for x, _ in walk({'k': 'block', 'stmts': [], 'tail': None}) if False else []:
                    pass
                txt = str(arm['pat'])
                for v in ('Import',):
                    if f'WbFunction::{v}' in txt and any(ctor_name(x) and 'ClientWriteCommand::' in ctor_name(x) for x, _ in walk(arm['body'])):
                        special.add(v)
    n = 0
    for arm in pm['arms']:
        for v in pat_variants(arm['pat']):
            sv = short(v)
            if v == '_':
                continue
            core_calls = [nd for nd, a in walk(arm['body']) if nd.get('k') == 'call' and callee(nd).startswith(CORE + '::')]
            if not core_calls:
                continue
            mname = short(callee(core_calls[0]))
            w, why = writes_user_keys(crate, mname)
            n += 1
            got = mirrored.get(sv, set())
            if w:
                if got or sv in special:
                    rep.ok('C11.a', f'WbFunction::{sv}', f'{pf.file}:{arm.get("ln")}', f'writes user keys ({why}); mirrored as '
                           f'{sorted(got) or "special case in try_forward_api_call"}')
                else:
                    rep.violation('C11.a', f'WbFunction::{sv}', f'{pf.file}:{arm.get("ln")}', f'{why}, but the leader mirrors nothing for it: '
                                  'followers keep the old data', key=f'C11.a/{sv}/not-mirrored', expected='a ClientWriteCommand')
            else:
                if got:
                    rep.violation('C11.a', f'WbFunction::{sv}', f'{pf.file}:{arm.get("ln")}', f'a request that does not write user keys is '
                                  f'mirrored as {sorted(got)}', key=f'C11.a/{sv}/spurious-mirror')
                else:
                    rep.ok('C11.a', f'WbFunction::{sv}', f'{pf.file}:{arm.get("ln")}', 'does not change keys outside $SYS; not mirrored')
    rep.floor('C11.a', n, 25, 'WbFunction variants classified')


def _sys_guard_eval(cond, b, keyname, F, S):
    """value of a guard condition under filter_sys = F and <key>.starts_with($SYS/) = S; raises ValueError on anything else"""
    from ..ir import inline_predicate
    cond = inline_predicate(b.crate, cond)
    while cond.get('k') == 'block' and not cond.get('stmts') and 'tail' in cond:
        cond = cond['tail']
    k = cond.get('k')
    if k == 'unary' and cond.get('op') == 'Not':
        return not _sys_guard_eval(cond['e'], b, keyname, F, S)
    if k == 'binary' and cond.get('op') in ('Or', 'And'):
        l = _sys_guard_eval(cond['l'], b, keyname, F, S)
        r = _sys_guard_eval(cond['r'], b, keyname, F, S)
        return (l or r) if cond['op'] == 'Or' else (l and r)
    if k == 'path' and b.origins(cond) == {'param(filter_sys)'}:
        return F
    if k == 'call' and short(callee(cond)) == 'starts_with' and 'SYSTEM_TOPIC_ROOT_PREFIX' in str(cond['args'][1]) and \
            all(keyname in x for x in b.origins(cond['args'][0])):
        return S
    raise ValueError(k)


def _sys_guard_ok(cond, b, keyname, branch=True):
    """the guarded code runs exactly when `!filter_sys || !<key>.starts_with(SYSTEM_TOPIC_ROOT_PREFIX)` - whatever the spelling
    (negated helper, De Morgan form, swapped branches): compared on the truth table"""
    try:
        return all((_sys_guard_eval(cond, b, keyname, F, S) == branch) == ((not F) or (not S))
                   for F in (False, True) for S in (False, True))
    except (ValueError, KeyError, IndexError):
        return False


MIRROR = {'Set': ('Set', [0, 1], True), 'CSet': ('CSet', [0, 1, 2], True), 'Delete': ('Delete', [0], False), 'PDelete': ('PDelete', [0], False)}


def rule_b(prog, rep):
    rep.rule('C11.b', 'T7+T6', 'mirror fidelity: each ClientWriteCommand built by forward_api_call takes its key / value / version '
             'from the same positions of the WbFunction and carries force = false (requests are forwarded BEFORE the leader '
             'decides, so the follower must re-run the same check); all four arms sit under the same guard `!filter_sys || '
             '!key.starts_with($SYS/)`; the follower maps each command to the same-named core call with those operands, as '
             'the internal client')
    crate = prog.crate(WB)
    f, m = _forward_match(crate)
    b = Bindings(crate, f)
    for arm in m['arms']:
        for v in pat_variants(arm['pat']):
            sv = short(v)
            if sv not in MIRROR:
                continue
            want, pos, has_force = MIRROR[sv]
            # (found through crate.walk_fn so that closures - `cond.then(|| Cmd(..))` - and new helper functions are entered)
            ctors = [(nd, anc) for nd, anc in crate.walk_fn(f) if ctor_name(nd) and 'ClientWriteCommand::' in ctor_name(nd) and
                     any(a_ is arm['body'] for a_ in anc)]
            problems = []
            if len(ctors) != 1 or short(ctor_name(ctors[0][0])) != want:
                problems.append(f'builds {[short(ctor_name(c[0])) for c in ctors]}')
            else:
                nd, anc = ctors[0]
                for i, p in enumerate(pos):
                    o = b.origins(nd['args'][i])
                    if o != {f'param(function)#{sv}.{p}'}:
                        problems.append(f'operand {i} <- {sorted(o)}')
                if has_force:
                    fo = b.origins(nd['args'][len(pos)])
                    if fo != {'lit(False)'}:
                        problems.append(f'force <- {sorted(fo)}: the follower would apply what the leader may have rejected')
                g = [it for it in guards(tuple(a for a in ()) + anc + (nd,)) if it[0] == 'if']
                if not any(_sys_guard_ok(it[1], b, f'#{sv}.0', it[2]) for it in g):
                    problems.append('not under `!filter_sys || !key.starts_with(SYSTEM_TOPIC_ROOT_PREFIX)`')
            if problems:
                rep.violation('C11.b', f'forward_api_call:{sv}', f'{f.file}:{arm.get("ln")}', '; '.join(problems),
                              key=f'C11.b/forward/{sv}/' + '|'.join(p.split('<-')[0].split(':')[0].strip() for p in problems))
            else:
                rep.ok('C11.b', f'forward_api_call:{sv}', f'{f.file}:{arm.get("ln")}', f'-> ClientWriteCommand::{want}(same operands'
                       f'{", force=false" if has_force else ""}) under the $SYS filter')
    # follower side
    pl = crate.fn(f'{FOLLOWER}::process_leader_message')
    pb = Bindings(crate, pl)
    ms = [nd for nd, a in crate.walk_fn(pl) if nd.get('k') == 'match' and 'ClientWriteCommand' in str(nd.get('scrut_ty'))]
    if len(ms) != 1:
        raise AnchorMissing('match over ClientWriteCommand in process_leader_message')
    table = {'Set': ('set', 3), 'CSet': ('cset', 4), 'Delete': ('delete', 1), 'PDelete': ('pdelete', 1)}
    n = 0
    for arm in ms[0]['arms']:
        for v in pat_variants(arm['pat']):
            sv = short(v)
            if v == '_':
                rep.violation('C11.b', 'follower:catch-all', f'{pl.file}:{arm.get("ln")}', 'catch-all over sync commands', key='C11.b/follower/catch-all')
                continue
            want, nops = table.get(sv, (None, 0))
            cs = [nd for nd, a in walk(arm['body']) if nd.get('k') == 'call' and callee(nd).startswith(CORE + '::')]
            n += 1
            problems = []
            if want is None:
                problems.append('unknown command')
            elif len(cs) != 1 or short(callee(cs[0])) != want:
                problems.append(f'calls {[short(callee(c)) for c in cs]}')
            else:
                args = cs[0]['args'][1:]
                vi = 0
                for a in args:
                    o = pb.origins(a)
                    if any('INTERNAL_CLIENT_ID' in x for x in o):
                        continue
                    if not all(f'#{sv}.{vi}' in x for x in o):
                        problems.append(f'operand {vi} <- {sorted(o)}')
                    vi += 1
                if vi != nops:
                    problems.append(f'{vi} command operands used, expected {nops}')
                if not any(any('INTERNAL_CLIENT_ID' in x for x in pb.origins(a)) for a in args):
                    problems.append('not applied as the internal client')
            if problems:
                rep.violation('C11.b', f'follower:{sv}', f'{pl.file}:{arm.get("ln")}', '; '.join(problems), key=f'C11.b/follower/{sv}')
            else:
                rep.ok('C11.b', f'follower:{sv}', f'{pl.file}:{arm.get("ln")}', f'-> Worterbuch::{want}(operands of the command, INTERNAL_CLIENT_ID)')
    rep.floor('C11.b', n, 4, 'follower command arms')


def rule_c(prog, rep):
    rep.rule('C11.c', 'T2', 'forward happens on every path, with the $SYS filter on, before the leader applies the request; the '
             'Import special case applies first and then forwards every changed entry')
    crate = prog.crate(WB)
    f = crate.fn(f'{LEADER}::try_forward_api_call')
    b = Bindings(crate, f)

    def classify(nd, anc):
        if nd.get('k') != 'call':
            return None
        c = callee(nd)
        if c == 'forward_api_call':
            return 'forward'
        if c == 'process_api_call':
            return 'apply'
        if c == 'forward_to_followers':
            return 'forward_entry'
        return None
    paths = Tracer(crate, classify).run_fn(f)
    gen = [t for (ex, t, v) in paths if 'forward' in [base(x) for x in t] or ('apply' in [base(x) for x in t] and 'forward_entry' not in ' '.join(t))]
    problems = []
    for (ex, t, v) in paths:
        tb = [base(x) for x in t if '@' not in x]
        if 'apply' in tb and 'forward' not in tb and 'forward_entry' not in tb:
            # the import arm with nothing changed is fine; a generic arm without forward is not
            pass
    arms = [nd for nd, a in crate.walk_fn(f) if nd.get('k') == 'match' and 'Option<server::common::WbFunction>' in str(nd.get('scrut_ty'))]
    if len(arms) != 1:
        raise AnchorMissing('match on the received function in try_forward_api_call')
    generic = [a for a in arms[0]['arms'] if 'Import' not in str(a['pat']) and {short(v) for v in pat_variants(a['pat'])} == {'Some'}]
    if len(generic) != 1:
        problems.append('no generic Some(function) arm')
    else:
        tr = Tracer(crate, classify)
        tr.env = {}
        bp = tr.expr(generic[0]['body'])
        seqs = {tuple(base(x) for x in t if '@' not in x) for (ex, t, v) in bp}
        if seqs != {('forward', 'apply')}:
            problems.append(f'generic arm does {sorted(seqs)}')
        fc = [nd for nd, a in walk(generic[0]['body']) if nd.get('k') == 'call' and callee(nd) == 'forward_api_call']
        if fc and b.origins(fc[0]['args'][3]) != {'lit(True)'}:
            problems.append(f'filter_sys <- {sorted(b.origins(fc[0]["args"][3]))}')
    imp = [a for a in arms[0]['arms'] if 'Import' in str(a['pat'])]
    if len(imp) != 1:
        problems.append('no Import arm')
    else:
        tr = Tracer(crate, classify)
        tr.env = {}
        bp = tr.expr(imp[0]['body'])
        for (ex, t, v) in bp:
            tb = [base(x) for x in t if '@' not in x]
            if 'forward_entry' in tb and ('apply' not in tb or tb.index('apply') > tb.index('forward_entry')):
                problems.append('import entries forwarded before the import was applied')
        ct = [nd for nd, a in walk(imp[0]['body']) if ctor_name(nd) and 'ClientWriteCommand::' in ctor_name(nd)]
        if {short(ctor_name(x)) for x in ct} != {'Set', 'CSet'}:
            problems.append(f'import forwards {sorted(short(ctor_name(x)) for x in ct)}')
        if not any(nd.get('k') == 'if' and 'changed' in str(nd['cond'])[:300] for nd, a in walk(imp[0]['body'])):
            problems.append('import forwards unchanged entries too / ignores the changed flag')
    if problems:
        rep.violation('C11.c', 'try_forward_api_call', f.loc, '; '.join(problems), key='C11.c/' + '|'.join(problems))
    else:
        rep.ok('C11.c', 'try_forward_api_call', f.loc, 'generic: forward(filter_sys = true) then apply; import: apply, then forward each changed entry')


def rule_d(prog, rep):
    rep.rule('C11.d', 'T2/T3', 'join without gap: in try_forward_follower_connected there is no .await between worterbuch.export() and '
             'the registration of the follower\'s sender; the state sent is built from that export; the sender is registered only if '
             'the state was handed over')
    crate = prog.crate(WB)
    f = crate.fn(f'{LEADER}::try_forward_follower_connected')
    b = Bindings(crate, f)

    def classify(nd, anc):
        k = nd.get('k')
        if k == 'await':
            return 'await'
        if k == 'call':
            c = callee(nd)
            if c == f'{CORE}::export':
                return 'export'
            if short(c) == 'push' and 'client_write_txs' in str(nd['args'][0])[:200]:
                return 'register'
            if short(c) == 'send' and 'oneshot' in c:
                return 'handover'
        return None
    paths = Tracer(crate, classify).run_fn(f)
    problems = []
    seen = False
    for (ex, t, v) in paths:
        tb = [base(x) for x in t if '@' not in x]
        if 'export' in tb:
            seen = True
            i = tb.index('export')
            if 'register' in tb:
                j = tb.index('register')
                if 'await' in tb[i:j]:
                    problems.append('an await separates export() from the registration: writes in between are lost for the follower')
                if 'handover' not in tb[i:j]:
                    problems.append('sender registered without handing the state over')
    if not seen:
        problems.append('anchor: export() not found')
    st = [nd for nd, a in crate.walk_fn(f) if ctor_name(nd) and (ctor_name(nd) or '').endswith('StateSync')]
    if len(st) != 1 or [next(iter(b.origins(a))) if len(b.origins(a)) == 1 else '?' for a in st[0]['args']] != \
            [f'call({CORE}::export)[0]', f'call({CORE}::export)[1]', f'call({CORE}::export)[2]']:
        problems.append('StateSync is not (export.0, export.1, export.2)')
    if problems:
        rep.violation('C11.d', 'try_forward_follower_connected', f.loc, '; '.join(sorted(set(problems))), key='C11.d/' + '|'.join(sorted(set(problems))))
    else:
        rep.ok('C11.d', 'try_forward_follower_connected', f.loc, 'export -> StateSync(export) handed over -> sender registered, without an await')


def rule_e(prog, rep):
    rep.rule('C11.e', 'T6', 'the state-sync message is fully consumed: every field of StateSync that the leader fills is read by '
             'follower::initial_sync')
    crate = prog.crate(WB)
    a = crate.adt('leader_follower::StateSync')
    fields = [f['name'] for f in a['variants'][0]['fields']]
    f = crate.fn(f'{FOLLOWER}::initial_sync')
    b = Bindings(crate, f)
    read = set()
    for nd, anc in crate.walk_fn(f):
        if nd.get('k') == 'field' and 'StateSync' in str(nd.get('base_ty')):
            read.add(nd['name'])
    for p in f.params:
        pass
    for nd, anc in crate.walk_fn(f):
        if nd.get('k') == 'let' and 'StateSync' in str(nd.get('pat')):
            pat = nd['pat']
            if pat.get('k') == 'pctor':
                for i, x in enumerate(pat['args']):
                    if x.get('k') == 'bind':
                        read.add(str(i))
    for fl in fields:
        if fl in read:
            rep.ok('C11.e', f'StateSync.{fl}', f.loc, 'read by initial_sync')
        else:
            what = {'1': 'grave goods', '2': 'last wills'}.get(fl, fl)
            rep.violation('C11.e', f'StateSync.{fl}', f.loc, f'the leader sends field {fl} ({what}) but initial_sync never reads it: a follower '
                          'that joins after the registrations does not know them', key=f'C11.e/StateSync.{fl}/ignored')
    rep.floor('C11.e', len(fields), 3, 'StateSync fields')
    # reset_store installs the tree verbatim
    r = crate.fn(f'{CORE}::reset_store')
    if crate.calls(r, lambda c: c == f'{STORE}::reset'):
        rep.ok('C11.e', 'reset_store', r.loc, 'installs the synced tree with Store::reset (no per-key re-insert)')
    else:
        rep.violation('C11.e', 'reset_store', r.loc, 'the synced tree is not installed verbatim', key='C11.e/reset_store')


def rule_f(prog, rep):
    rep.rule('C11.f', 'T5+T6', 'versions survive mirroring: the leader stores an imported CAS entry verbatim (Store::nmerge sets Cas(val, '
             'v)) and mirrors it as CSet(key, val, v, force = true); the follower\'s forced insert must then store Cas(val, v) too, '
             'i.e. the force = true rows of the Store::insert table must keep the given version')
    crate = prog.crate(WB)
    try:
        fi, m, table = c02.insert_table(crate)
    except NoMatch as e:
        rep.violation('C11.f', 'Store::insert', '', f'unrecognised-shape: {e}', key='C11.f/unrecognised-shape')
        return
    rows = {k: v for k, v in table.items() if k[3] and k[1] == 'Cas'}
    got = sorted({(k[0], v[3][1] if v[0] == 'Ok' and v[3][0] == 'Cas' else str(v)) for k, v in rows.items()})
    tf = crate.fn(f'{LEADER}::try_forward_api_call')
    b = Bindings(crate, tf)
    cs = [nd for nd, a in crate.walk_fn(tf) if ctor_name(nd) and (ctor_name(nd) or '').endswith('ClientWriteCommand::CSet')]
    verbatim = len(cs) == 1 and any('#Cas.1' in x for x in b.origins(cs[0]['args'][2])) and b.origins(cs[0]['args'][3]) == {'lit(True)'}
    if all(v == 'V' for _, v in got) and verbatim:
        rep.ok('C11.f', 'import-version-mirroring', fi.loc, 'forced CAS insert keeps the given version')
    else:
        rep.violation('C11.f', 'import-version-mirroring', loc(fi, m), f'leader keeps Cas(val, v) for an imported entry, mirrors CSet(v, force) '
                      f'(verbatim={verbatim}); the follower\'s forced insert stores versions {got}: leader and follower disagree on the '
                      'CAS version', key='C11.f/' + '|'.join(f'{c}:{v}' for c, v in got), expected='V for every current state')


REFUSED = ['Set', 'CSet', 'SPubInit', 'SPub', 'Publish', 'Lock', 'AcquireLock', 'ReleaseLock', 'Delete', 'PDelete', 'Import']


def rule_g(prog, rep):
    rep.rule('C11.g', 'T4', 'the follower refuses writes: in follower::process_api_call every writing / publishing / locking request '
             'kind answers Err(NotLeader) and calls no core method; the remaining kinds map to the same core call as in regular '
             'mode')
    crate = prog.crate(WB)
    f = crate.fn(f'{FOLLOWER}::process_api_call')
    m = c02.api_match(crate, f)
    seen = set()
    for arm in m['arms']:
        for v in pat_variants(arm['pat']):
            sv = short(v)
            if v == '_':
                rep.violation('C11.g', 'catch-all', f'{f.file}:{arm.get("ln")}', 'catch-all arm', key='C11.g/catch-all')
                continue
            seen.add(sv)
            core = [nd for nd, a in walk(arm['body']) if nd.get('k') == 'call' and callee(nd).startswith(CORE + '::')]
            errs = [short(ctor_name(nd)) for nd, a in walk(arm['body']) if ctor_name(nd) and 'WorterbuchError::' in ctor_name(nd)]
            if sv in REFUSED:
                if not core and errs == ['NotLeader']:
                    rep.ok('C11.g', f'follower:{sv}', f'{f.file}:{arm.get("ln")}', 'Err(NotLeader), no core call')
                else:
                    rep.violation('C11.g', f'follower:{sv}', f'{f.file}:{arm.get("ln")}', f'core calls {[short(callee(c)) for c in core]}, '
                                  f'errors {errs}', key=f'C11.g/{sv}', expected='Err(NotLeader) and nothing else')
            else:
                want = c02.API_TABLE.get(sv)
                if len(core) == 1 and short(callee(core[0])) == want:
                    rep.ok('C11.g', f'follower:{sv}', f'{f.file}:{arm.get("ln")}', f'-> Worterbuch::{want}')
                else:
                    rep.violation('C11.g', f'follower:{sv}', f'{f.file}:{arm.get("ln")}', f'calls {[short(callee(c)) for c in core]}',
                                  key=f'C11.g/{sv}/call', expected=str(want))
    miss = [v for v in REFUSED if v not in seen]
    if miss:
        rep.violation('C11.g', 'missing', f.loc, f'no arm for {miss}', key='C11.g/missing')
    rep.floor('C11.g', len([v for v in REFUSED if v in seen]), 11, 'refused request kinds')
    # classification cross-check: everything that writes user keys is refused
    for arm in c02.api_match(crate, crate.fn('process_api_call'))['arms']:
        for v in pat_variants(arm['pat']):
            sv = short(v)
            core = [nd for nd, a in walk(arm['body']) if nd.get('k') == 'call' and callee(nd).startswith(CORE + '::')]
            if core and sv not in REFUSED and sv != 'Disconnected':
                w, why = writes_user_keys(crate, short(callee(core[0])))
                if w:
                    rep.violation('C11.g', f'follower:{sv}:served', f.loc, f'{sv} writes user keys ({why}) but the follower serves it',
                                  key=f'C11.g/{sv}/served-write')


def rule_h(prog, rep):
    rep.rule('C11.h', 'T4/T7', 'registration forwarding: the leader\'s two internal psubscribes use the $SYS/clients/?/graveGoods and '
             '.../lastWill patterns with unique = true, live_only = false; try_forward_*_change map KeyValuePairs -> Set and Deleted '
             '-> Delete of the same key, forwarded with filter_sys = false')
    crate = prog.crate(WB)
    f = crate.fn(f'{LEADER}::run_in_leader_mode')
    b = Bindings(crate, f)
    ps = [nd for nd, a in crate.walk_fn(f) if nd.get('k') == 'call' and callee(nd) == f'{CORE}::psubscribe']
    consts = set()
    for nd in ps:
        txt = deep_text(crate, b.deref_local(nd['args'][3]))
        which = 'SYSTEM_TOPIC_GRAVE_GOODS' if 'SYSTEM_TOPIC_GRAVE_GOODS' in txt else ('SYSTEM_TOPIC_LAST_WILL' if 'SYSTEM_TOPIC_LAST_WILL' in txt else '?')
        okp = all(w in txt for w in ('SYSTEM_TOPIC_ROOT', 'SYSTEM_TOPIC_CLIENTS', 'KeySegment::Wildcard'))
        uo, lo = b.origins(nd['args'][4]), b.origins(nd['args'][5])
        io = b.origins(nd['args'][1])
        if okp and which != '?' and uo == {'lit(True)'} and lo == {'lit(False)'} and any('INTERNAL_CLIENT_ID' in x for x in io):
            consts.add(which)
            rep.ok('C11.h', f'psubscribe:{which}', loc(f, nd), '$SYS/clients/?/' + which + ', unique, with snapshot, internal client')
        else:
            rep.violation('C11.h', f'psubscribe:{which}', loc(f, nd), f'pattern ok={okp}, unique <- {sorted(uo)}, live_only <- {sorted(lo)}',
                          key=f'C11.h/psubscribe/{which}')
    if consts != {'SYSTEM_TOPIC_GRAVE_GOODS', 'SYSTEM_TOPIC_LAST_WILL'}:
        rep.violation('C11.h', 'psubscribe:both', f.loc, f'internal subscriptions cover {sorted(consts)}', key='C11.h/psubscribe/both')
    for name in ('try_forward_grave_goods_change', 'try_forward_last_will_change'):
        g = crate.fn(f'{LEADER}::{name}')
        gb = Bindings(crate, g)
        ms = [nd for nd, a in crate.walk_fn(g) if nd.get('k') == 'match' and 'PStateEvent' in str(nd.get('scrut_ty'))]
        problems = []
        if len(ms) != 1:
            problems.append('no match over PStateEvent')
        else:
            want = {'KeyValuePairs': 'Set', 'Deleted': 'Delete'}
            for arm in ms[0]['arms']:
                vs = {short(v) for v in pat_variants(arm['pat'])}
                for v in vs:
                    if v not in want:
                        problems.append(f'arm {v}')
                        continue
                    ct = [nd for nd, a in walk(arm['body']) if ctor_name(nd) and 'WbFunction::' in ctor_name(nd)]
                    fc = [nd for nd, a in walk(arm['body']) if nd.get('k') == 'call' and callee(nd) == 'forward_api_call']
                    if [short(ctor_name(x)) for x in ct] != [want[v]]:
                        problems.append(f'{v} -> {[short(ctor_name(x)) for x in ct]}')
                    elif not all(x.endswith('.key') for x in gb.origins(ct[0]['args'][0])):
                        problems.append(f'{v}: key <- {sorted(gb.origins(ct[0]["args"][0]))}')
                    if len(fc) != 1 or gb.origins(fc[0]['args'][3]) != {'lit(False)'}:
                        problems.append(f'{v}: not forwarded with filter_sys = false')
                    if not any(x.get('k') == 'for' for x, _ in walk(arm['body'])):
                        problems.append(f'{v}: not every pair is forwarded')
        if problems:
            rep.violation('C11.h', name, g.loc, '; '.join(problems), key=f'C11.h/{name}/' + '|'.join(problems))
        else:
            rep.ok('C11.h', name, g.loc, 'KeyValuePairs -> Set(key, value), Deleted -> Delete(key), each pair, filter_sys = false')


def rule_i(prog, rep):
    rep.rule('C11.i', 'T7', 'the follower re-runs the leader\'s decision: mirrored Set / CSet commands are applied through Worterbuch::set / '
             'cset, which must hand value, version and force to the store unchanged (= C02.g) - a core that forces writes of the '
             'internal client id makes the follower accept what the leader refused')
    from .corefx import core_write_operands
    core_write_operands(prog, rep, 'C11.i')


def rule_j(prog, rep):
    rep.rule('C11.j', 'T3', 'every follower gets every command: forward_to_followers sends the command to each registered follower '
             'sender in one pass over the whole list; the list is not modified while it is being walked (dead followers are '
             'collected and removed after the pass, by id) - removing inside the pass shifts the next follower into the visited '
             'slot and skips it for this one command')
    crate = prog.crate(WB)
    f = crate.fn('forward_to_followers')
    b = Bindings(crate, f)
    loops = [nd for nd, a in crate.walk_fn(f) if nd.get('k') in ('for', 'loop')]
    problems = []
    sends = [(nd, anc) for nd, anc in crate.walk_fn(f) if nd.get('k') == 'call' and is_mpsc_send(callee(nd))]
    if len(sends) != 1 or not any(a.get('k') in ('for', 'loop') for a in sends[0][1] if isinstance(a, dict)):
        problems.append(f'{len(sends)} send sites / not inside a pass over the followers')
    else:
        so = b.origins(sends[0][0]['args'][0])
        if not so or not all('param(client_write_txs)' in x for x in so):
            problems.append(f'the sender is not an element of the follower list ({sorted(so)})')
        if not all(x == 'param(cmd)' for x in b.origins(sends[0][0]['args'][1])):
            problems.append('what is sent is not the command')
    MUT = ('remove', 'swap_remove', 'retain', 'drain', 'clear', 'truncate', 'pop', 'insert', 'push', 'retain_mut', 'dedup', 'split_off')
    for nd, anc in crate.walk_fn(f):
        if nd.get('k') == 'call' and short(callee(nd)) in MUT and nd['args'] and 'Vec' in callee(nd) and \
                b.origins(nd['args'][0]) == {'param(client_write_txs)'}:
            inside = any(isinstance(a, dict) and a.get('k') in ('for', 'loop') for a in anc)
            if inside:
                problems.append(f'the follower list is modified ({short(callee(nd))}) while it is walked')
            elif short(callee(nd)) != 'retain':
                problems.append(f'followers are removed with {short(callee(nd))} instead of retain-by-id')
    fors = [nd for nd in loops if nd.get('k') == 'for']
    if fors and not all('param(client_write_txs)' in x for x in b.origins(fors[0]['iter'])):
        problems.append('the pass is not over the follower list')
    if not fors and loops and not problems:
        problems.append('unrecognised-shape: the pass over the followers is not a `for` loop over the list')
    if not loops:
        problems.append('no pass over the followers')
    if problems:
        rep.violation('C11.j', 'forward_to_followers', f.loc, '; '.join(sorted(set(problems))), key='C11.j/forward_to_followers/' + '|'.join(sorted({p_.split(' (')[0] for p_ in problems})))
    else:
        rep.ok('C11.j', 'forward_to_followers', f.loc, 'for (id, tx) in list { tx.send(cmd.clone()) }; dead ones removed after the pass')


def rule_k(prog, rep):
    rep.rule('C11.k', 'T7+T3', 'import and join are mirrored in full: the leader mirrors every changed entry of an import with force = '
             'true (the import itself overwrote whatever was there: Set(key, value, true) for a plain entry, CSet(key, value, '
             'version, true) for a CAS entry), for exactly the entries whose `changed` flag is set, and answers the importer '
             'afterwards; the follower propagates a failed initial_sync with `?` (it does not go on with a partial state)')
    crate = prog.crate(WB)
    tf = crate.fn(f'{LEADER}::try_forward_api_call')
    b = Bindings(crate, tf)
    problems = []
    sets = [nd for nd, a in crate.walk_fn(tf) if (ctor_name(nd) or '').endswith('ClientWriteCommand::Set')]
    csets = [nd for nd, a in crate.walk_fn(tf) if (ctor_name(nd) or '').endswith('ClientWriteCommand::CSet')]
    if len(sets) != 1 or b.origins(sets[0]['args'][2]) != {'lit(True)'} or not any('#Plain.0' in x for x in b.origins(sets[0]['args'][1])):
        problems.append('a plain imported entry is not mirrored as Set(key, value, force = true)')
    if len(csets) != 1 or b.origins(csets[0]['args'][3]) != {'lit(True)'} or not any('#Cas.0' in x for x in b.origins(csets[0]['args'][1])) or \
            not any('#Cas.1' in x for x in b.origins(csets[0]['args'][2])):
        problems.append('a CAS imported entry is not mirrored as CSet(key, value, version, force = true)')
    fw = [(nd, a) for nd, a in crate.walk_fn(tf) if nd.get('k') == 'call' and callee(nd) == 'forward_to_followers']
    in_loop = [(nd, a) for nd, a in fw if any(isinstance(x, dict) and x.get('k') == 'for' for x in a)]
    if len(in_loop) != 1:
        problems.append(f'{len(in_loop)} forwarding sites inside the loop over the imported entries')
    else:
        nd, anc = in_loop[0]
        g = [it for it in guards(anc + (nd,)) if it[0] == 'if']
        lp = [x for x in anc if isinstance(x, dict) and x.get('k') == 'for'][-1]
        inner = [it for it in g if any(y is it[1] for y, _ in walk(lp['body']))]
        okg = len(inner) == 1 and all('[*]' in x and x.endswith('[1]') for x in b.origins(strip_not(inner[0][1])[0])) and \
            (inner[0][2] == strip_not(inner[0][1])[1])     # `if changed { forward }` or `if !changed { continue } forward`
        if not okg:
            problems.append('the mirrored entries are not exactly those with changed == true')
    f = crate.fn(f'{FOLLOWER}::run_in_follower_mode')
    isy = [(nd, a) for nd, a in crate.walk_fn(f) if nd.get('k') == 'call' and callee(nd) == f'{FOLLOWER}::initial_sync']
    okp = len(isy) == 1
    if okp:
        chain = [x for x in isy[0][1] if isinstance(x, dict)]
        par = chain[-1] if chain else {}
        if par.get('k') == 'await':
            par = chain[-2] if len(chain) > 1 else {}
        okp = par.get('k') == 'try'
    if not okp:
        problems.append('a failed initial_sync is not propagated with `?`')
    if problems:
        rep.violation('C11.k', 'import-and-join', tf.loc, '; '.join(problems), key='C11.k/' + '|'.join(problems))
    else:
        rep.ok('C11.k', 'import-and-join', tf.loc, 'changed entries -> Set / CSet with force = true; initial_sync(..)?')


RULES = [('C11.k', rule_k), ('C11.j', rule_j), ('C11.i', rule_i), ('C11.a', rule_a), ('C11.b', rule_b), ('C11.c', rule_c), ('C11.d', rule_d), ('C11.e', rule_e), ('C11.f', rule_f),
         ('C11.g', rule_g), ('C11.h', rule_h)]
