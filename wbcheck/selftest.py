"""Thorough tier: validate the rules of one property against the self-test corpus.

Every mutant (selftest/mutants.py: text replacements; seeded/<id>/patch.diff: patches written by independent sub-agents) is
applied to a scratch copy of /repo's sources outside /repo and /verif, facts are re-extracted (the warm target directory is
shared, so only the touched crate is re-checked), the property's rules are evaluated on those facts, and the mutant counts
as detected when a violation appears that the unchanged tree does not have and that comes from the expected rule.
This validates the analyser; the verdict about /repo never depends on it.  A mutant whose anchor text is gone is `skipped`,
one that does not compile is `invalid`.
"""
import importlib
import importlib.util
import json
import os
import shutil
import subprocess
import sys
import time

from . import facts
from .ir import Program, AnchorMissing
from .report import Report, load_known
from .trace import TooComplex

VERIF = facts.VERIF


def load_corpus(prop):
    spec = importlib.util.spec_from_file_location('wb_mutants', os.path.join(VERIF, 'selftest', 'mutants.py'))
    mod = importlib.util.module_from_spec(spec)
    spec.loader.exec_module(mod)
    out = [dict(x, kind='replace') for x in mod.M if x['property'] == prop]
    sd = os.path.join(VERIF, 'seeded')
    if os.path.isdir(sd):
        for d in sorted(os.listdir(sd)):
            mp = os.path.join(sd, d, 'meta.json')
            pp = os.path.join(sd, d, 'patch.diff')
            if os.path.exists(mp) and os.path.exists(pp):
                meta = json.load(open(mp))
                if meta.get('property') == prop and meta.get('confirmed'):
                    out.append({'id': d, 'property': prop, 'kind': 'patch', 'patch': pp, 'rule': prop + '.'})
    # behaviour-preserving refactorings written by independent sub-agents (refactors/<set>/rN.diff): must stay silent.
    # A refactoring is tried for the properties whose anchored files it touches.
    rd = os.path.join(VERIF, 'refactors')
    if os.path.isdir(rd) and not os.environ.get('VERIF_SKIP_REFACTORS'):
        for st in sorted(os.listdir(rd)):
            for fn in sorted(os.listdir(os.path.join(rd, st))):
                if not fn.endswith('.diff'):
                    continue
                pp = os.path.join(rd, st, fn)
                files = [l[6:].strip() for l in open(pp) if l.startswith('+++ b/')]
                if any(prop in REFACTOR_FILEMAP.get(f_, ()) for f_ in files):
                    out.append({'id': f'{st}-{fn[:-5]}', 'property': prop, 'kind': 'patch', 'patch': pp, 'rule': None})
    return out


W_ = 'worterbuch/src/'
REFACTOR_FILEMAP = {
    W_ + 'store.rs': ('C01', 'C02', 'C04', 'C05', 'C06', 'C09', 'C17'),
    W_ + 'subscribers.rs': ('C03', 'C04', 'C05'),
    W_ + 'worterbuch.rs': ('C01', 'C02', 'C03', 'C05', 'C06', 'C07', 'C08', 'C16', 'C17', 'C18'),
    W_ + 'auth.rs': ('C15',),
    W_ + 'server/common/protocol/v0.rs': ('C13', 'C15', 'C03', 'C16'),
    W_ + 'server/common/protocol/v1.rs': ('C13', 'C15', 'C06'),
    W_ + 'server/common/protocol/mod.rs': ('C13', 'C15', 'C17'),
    W_ + 'server/tcp.rs': ('C07', 'C14', 'C17'),
    W_ + 'persistence/json/v3.rs': ('C09', 'C10'),
    W_ + 'persistence/mod.rs': ('C09', 'C10', 'C12', 'C18'),
    W_ + 'persistence/redb/mod.rs': ('C18',),
    W_ + 'config.rs': ('C12',),
    W_ + 'lib.rs': ('C02', 'C07', 'C11', 'C12', 'C13'),
    W_ + 'leader_follower/leader.rs': ('C11', 'C12', 'C14', 'C17'),
    W_ + 'leader_follower/follower.rs': ('C11', 'C12', 'C13'),
    'worterbuch-cluster-orchestrator/src/election.rs': ('C19',),
    'worterbuch-cluster-orchestrator/src/config.rs': ('C19', 'C12'),
    'worterbuch-client/src/lib.rs': ('C20', 'C02'),
    'worterbuch-client/src/buffer.rs': ('C20',),
    'worterbuch-client/src/tcp.rs': ('C20', 'C14'),
    'worterbuch-common/src/lib.rs': ('C04', 'C14', 'C17', 'C08'),
}


def violations_of(prop, root):
    d = facts.ensure_facts(root, quiet=True)
    prog = Program(d)
    rep = Report(prop, 'thorough')
    mod = importlib.import_module(f'wbcheck.rules.{prop.lower()}')
    for name, fn in mod.RULES:
        try:
            fn(prog, rep)
        except AnchorMissing as e:
            rep.anchor_missing(name, e)
        except TooComplex as e:
            rep.anchor_missing(name, f'unrecognised-shape: {e}')
        except (KeyError, IndexError, TypeError, AttributeError, NameError, ValueError) as e:
            rep.anchor_missing(name, f'unrecognised-shape: {type(e).__name__}: {e}')
    return {o['key']: o for o in rep.obligations if o['verdict'] == 'violation'}


def run(prop, rep):
    corpus = load_corpus(prop)
    res = {'applied': 0, 'detected': 0, 'missed': [], 'skipped': [], 'invalid': [], 'refactors_silent': 0, 'refactors_alarmed': [],
           'details': []}
    rep.mutants = res
    if not corpus:
        return
    scratch_base = os.environ.get('VERIF_SCRATCH', f'/var/tmp/wbverif.{os.getpid()}')
    src = os.path.join(scratch_base, 'src')
    shutil.rmtree(scratch_base, ignore_errors=True)
    os.makedirs(src)
    try:
        subprocess.check_call(['rsync', '-a', '--exclude', 'target', '--exclude', '.git', facts.REPO + '/', src + '/'])
        base = violations_of(prop, src)
        for mu in corpus:
            t0 = time.time()
            touched = []
            try:
                if mu['kind'] == 'replace':
                    p = os.path.join(src, mu['file'])
                    text = open(p).read()
                    if text.count(mu['old']) != 1:
                        res['skipped'].append(mu['id'])
                        continue
                    touched.append((p, text))
                    open(p, 'w').write(text.replace(mu['old'], mu['new']))
                else:
                    # remember the files the patch touches
                    files = [l[6:].strip() for l in open(mu['patch']) if l.startswith('+++ b/')]
                    for f_ in files:
                        p = os.path.join(src, f_)
                        touched.append((p, open(p).read() if os.path.exists(p) else None))
                    r = subprocess.run(['patch', '-p1', '-s', '--no-backup-if-mismatch', '-i', mu['patch']], cwd=src,
                                       stdout=subprocess.PIPE, stderr=subprocess.STDOUT, text=True)
                    if r.returncode != 0:
                        res['skipped'].append(mu['id'])
                        continue
                try:
                    got = violations_of(prop, src)
                except facts.ExtractionError:
                    res['invalid'].append(mu['id'])
                    continue
                new = {k: o for k, o in got.items() if k not in base}
                if mu['rule'] is None:
                    # behaviour-preserving edit: must stay silent
                    if new:
                        res['refactors_alarmed'].append(mu['id'])
                        print(f"  selftest {mu['id']}: FALSE ALARM on a behaviour-preserving edit {sorted(new)[:3]}", file=sys.stderr)
                    else:
                        res['refactors_silent'] += 1
                        print(f"  selftest {mu['id']}: silent (behaviour-preserving edit)", file=sys.stderr)
                    res['details'].append({'id': mu['id'], 'expected_rule': None, 'fired': sorted({o['rule'] for o in new.values()}),
                                           'verdict': 'silent' if not new else 'FALSE-ALARM', 'wall_s': round(time.time() - t0, 1)})
                    continue
                res['applied'] += 1
                hit = [o for o in new.values() if o['rule'].startswith(mu['rule'])]
                entry = {'id': mu['id'], 'expected_rule': mu['rule'], 'fired': sorted({o['rule'] for o in new.values()}),
                         'instances': sorted({o['instance'] for o in new.values()})[:4], 'wall_s': round(time.time() - t0, 1)}
                if hit:
                    res['detected'] += 1
                    entry['verdict'] = 'detected'
                else:
                    res['missed'].append(mu['id'])
                    entry['verdict'] = 'MISSED' if not new else 'fired-elsewhere'
                res['details'].append(entry)
                print(f"  selftest {mu['id']}: {entry['verdict']} {entry['fired']}", file=sys.stderr)
            finally:
                for p, text in touched:
                    if text is None:
                        if os.path.exists(p):
                            os.remove(p)
                    else:
                        open(p, 'w').write(text)
    finally:
        shutil.rmtree(scratch_base, ignore_errors=True)
    if res['refactors_alarmed']:
        print(f"SELFTEST-FALSE-ALARM property={prop} edits={','.join(res['refactors_alarmed'])} (behaviour-preserving edits that made a rule fire)")
    if res['missed']:
        print(f"SELFTEST-MISS property={prop} mutants={','.join(res['missed'])} (validation of the analyser; the verdict on /repo is not affected)")
