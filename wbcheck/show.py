import json,sys,glob,os
from . import facts
def load(crate):
    return json.load(open(os.path.join(facts.ensure_facts(), crate+'.lib.json')))
def brief(e,ind=0,out=None,maxd=40):
    if out is None: out=[]
    pad='  '*ind
    if e is None: out.append(pad+'null'); return out
    if isinstance(e,list):
        for x in e: brief(x,ind,out)
        return out
    k=e.get('k')
    x=' X'+str(e['x'][:2]) if 'x' in e else ''
    ln=e.get('ln','')
    if k=='block':
        for s in e['stmts']: brief(s,ind,out)
        if 'tail' in e: out.append(pad+'tail:'); brief(e['tail'],ind+1,out)
    elif k=='let':
        out.append(f"{pad}let {pat(e['pat'])} = @{ln}{x}")
        if 'init' in e: brief(e['init'],ind+1,out)
        if 'else' in e: out.append(pad+' else:'); brief(e['else'],ind+1,out)
    elif k=='call':
        name=e.get('impl') or e.get('path') or ('<expr>')
        out.append(f"{pad}call {name} @{ln}{x} -> {str(e.get('ty'))[:60]}")
        for a in e['args']: brief(a,ind+1,out)
    elif k in('await','try','ref','unary','cast','return','break','yield'):
        out.append(f"{pad}{k} @{ln}{x}" + (f" operand_ty={e.get('operand_ty')}" if k=='try' else ''))
        if e.get('e'): brief(e['e'],ind+1,out)
    elif k=='path':
        out.append(f"{pad}path {e.get('res')} {e.get('name') or e.get('path')}{x}")
    elif k=='lit':
        out.append(f"{pad}lit {e['v']}")
    elif k=='field':
        out.append(f"{pad}field .{e['name']} of({str(e.get('base_ty'))[:40]})"); brief(e['e'],ind+1,out)
    elif k=='struct':
        out.append(f"{pad}struct {e.get('path')} @{ln}{x}")
        for f in e['fields']:
            out.append(f"{pad}  .{f['name']}:"); brief(f['e'],ind+2,out)
    elif k=='if':
        out.append(f"{pad}if @{ln}{x}"); brief(e['cond'],ind+1,out); out.append(pad+'then:'); brief(e['then'],ind+1,out)
        if 'else' in e: out.append(pad+'else:'); brief(e['else'],ind+1,out)
    elif k=='letcond':
        out.append(f"{pad}let? {pat(e['pat'])} ="); brief(e['init'],ind+1,out)
    elif k=='match':
        out.append(f"{pad}match({e['src']}) @{ln}{x} scrut_ty={str(e.get('scrut_ty'))[:70]}"); brief(e['scrut'],ind+1,out)
        for a in e['arms']:
            out.append(f"{pad} arm {pat(a['pat'])}" + (' IF' if 'guard' in a else '') + f" @{a['ln']}")
            if 'guard' in a: brief(a['guard'],ind+3,out)
            brief(a['body'],ind+2,out)
    elif k=='for':
        out.append(f"{pad}for {pat(e['pat'])} in @{ln}"); brief(e['iter'],ind+1,out); out.append(pad+' do:'); brief(e['body'],ind+1,out)
    elif k=='loop':
        out.append(f"{pad}loop({e['src']}) @{ln}{x}"); brief(e['body'],ind+1,out)
    elif k=='closure':
        out.append(f"{pad}closure {e['ckind']} {e['def']} @{ln}{x}")
    elif k in('binary','assign','assignop'):
        out.append(f"{pad}{k} {e.get('op','')} @{ln}{x}"); brief(e['l'],ind+1,out); brief(e['r'],ind+1,out)
    elif k in('tuple','array'):
        out.append(f"{pad}{k}"); 
        for a in e['elems']: brief(a,ind+1,out)
    elif k=='nop':
        pass
    elif k=='index':
        out.append(f"{pad}index of({str(e.get('base_ty'))[:40]})"); brief(e['e'],ind+1,out); brief(e['i'],ind+1,out)
    else:
        out.append(f"{pad}{k} {x}")
    return out
def pat(p):
    if p is None: return 'null'
    k=p['k']
    if k=='wild': return '_'
    if k=='bind': return p['name']+('@'+pat(p['sub']) if 'sub' in p else '')
    if k=='pctor': return (p.get('ctor_of') or p.get('path') or '?').split('::')[-1]+'('+','.join(pat(a) for a in p['args'])+(',..' if 'dotdot' in p else '')+')'
    if k=='ppath': return (p.get('ctor_of') or p.get('path') or '?').split('::',1)[-1]
    if k=='ptuple': return '('+','.join(pat(a) for a in p['args'])+')'
    if k=='por': return ' | '.join(pat(a) for a in p['alts'])
    if k=='plit': return str(p['v'].get('v'))
    if k=='pstruct': return (p.get('path') or '?').split('::')[-1]+'{'+','.join(f['name']+':'+pat(f['pat']) for f in p['fields'])+'}'
    return k
if __name__=='__main__':
    d=load(sys.argv[1])
    for f in d['fns']:
        if f['path']==sys.argv[2] or (len(sys.argv)>3 and sys.argv[2] in f['path']):
            print('==',f['path'],f['kind'],f['file'],f['line'],f.get('parent',''),f.get('coroutine',''))
            print('params',[pat(p) for p in f['params']])
            print('\n'.join(brief(f['hir'])))
