"""C02 — compare-and-swap never loses an update (structural clauses)."""
import re
from ..ir import callee, short, walk, ctor_name, pat_variants, AnchorMissing
from ..tables import match_pat, NoMatch, strip_block, local_val
from ..prov import Bindings
from .common import *

NOT_DECIDED = ('the interleaving argument itself (it follows on paper from C02.a + C02.c + C02.d: requests are applied one at a '
               'time, each cset compares with the current version and increments it); multi-threaded delivery of answers; '
               'gap-freeness of versions seen on a subscription')


# ------------------------------------------------------------------ C02.a decision table of Store::insert
def insert_inputs():
    for cur in ('None', 'Plain', 'Cas'):
        for new in ('Plain', 'Cas'):
            if new == 'Plain':
                vs = [None]
            elif cur != 'Cas':
                vs = [('zero', None), ('nonzero', None)]
            else:
                vs = [('zero', 'lt'), ('zero', 'eq'), ('nonzero', 'lt'), ('nonzero', 'eq'), ('nonzero', 'gt')]
            for v in vs:
                for force in (False, True):
                    yield (cur, new, v, force)


def insert_absval(cur, new, v, force):
    V = ('ver', v[0], 'V') if v else None
    VC = ('ver', 'any', 'VC')
    curv = {'None': ('variant', 'None', ()),
            'Plain': ('variant', 'Some', (('variant', 'Plain', (('val', 'c'),)),)),
            'Cas': ('variant', 'Some', (('variant', 'Cas', (('val', 'c'), VC)),))}[cur]
    newv = ('variant', 'Plain', (('val', 'x'),)) if new == 'Plain' else ('variant', 'Cas', (('val', 'x'), V))
    return (curv, newv, ('bool', force)), (v[1] if v else None)


def eval_guard(g, env, rel):
    """guard over two tagged versions: rel is the relation of the request version V to the current version VC"""
    if g.get('k') == 'binary' and g.get('op') in ('Eq', 'Ne', 'Lt', 'Le', 'Gt', 'Ge'):
        a, b = local_val(g['l'], env), local_val(g['r'], env)
        if a and b and a[0] == 'ver' and b[0] == 'ver' and {a[2], b[2]} == {'V', 'VC'} and rel is not None:
            # normalise to V <op> VC
            op = g['op']
            if a[2] == 'VC':
                op = {'Lt': 'Gt', 'Le': 'Ge', 'Gt': 'Lt', 'Ge': 'Le'}.get(op, op)
            return {'Eq': rel == 'eq', 'Ne': rel != 'eq', 'Lt': rel == 'lt', 'Le': rel in ('lt', 'eq'),
                    'Gt': rel == 'gt', 'Ge': rel in ('gt', 'eq')}[op]
        # a version against a literal: only 0 is decidable on the abstract versions (zero / nonzero)
        for x, y, flip in ((a, g['r'], False), (b, g['l'], True)):
            lit = strip_block(y)
            if x and x[0] == 'ver' and x[1] in ('zero', 'nonzero') and lit.get('k') == 'lit' and lit['v'].get('v') == 0:
                op = g['op']
                if flip:
                    op = {'Lt': 'Gt', 'Le': 'Ge', 'Gt': 'Lt', 'Ge': 'Le'}.get(op, op)
                z = x[1] == 'zero'
                return {'Eq': z, 'Ne': not z, 'Lt': False, 'Le': z, 'Gt': not z, 'Ge': True}[op]
    if g.get('k') == 'binary' and g.get('op') in ('And', 'Or'):
        l, r = eval_guard(g['l'], env, rel), eval_guard(g['r'], env, rel)
        return (l and r) if g['op'] == 'And' else (l or r)
    if g.get('k') == 'unary' and g.get('op') == 'Not':
        return not eval_guard(g['e'], env, rel)
    if g.get('k') == 'block' and not g.get('stmts') and 'tail' in g:
        return eval_guard(g['tail'], env, rel)
    if g.get('k') == 'path':
        v = local_val(g, env)
        if v and v[0] == 'bool':
            return v[1]
    raise NoMatch('guard shape')


def version_expr(ve, env):
    ve0 = ve
    while ve.get('k') in ('ref', 'cast') or (ve.get('k') == 'unary' and ve.get('op') == 'Deref'):
        ve = ve['e']
    if ve.get('k') == 'lit':
        return str(ve['v']['v'])
    if ve.get('k') == 'binary' and ve['r'].get('k') == 'lit' and ve.get('op') in ('Add', 'Sub'):
        b = local_val(ve['l'], env)
        if b and b[0] == 'ver':
            return f"{b[2]}{'+' if ve['op'] == 'Add' else '-'}{ve['r']['v']['v']}"
    if ve.get('k') == 'call' and short(callee(ve)) in ('wrapping_add', 'saturating_add', 'checked_add') and len(ve['args']) == 2 \
            and ve['args'][1].get('k') == 'lit':
        b = local_val(ve['args'][0], env)
        if b and b[0] == 'ver':
            return f"{b[2]}+{ve['args'][1]['v']['v']}({short(callee(ve))})"
    b = local_val(ve, env)
    if b and b[0] == 'ver':
        return b[2]
    raise NoMatch('version expression')


def changed_expr(e, env):
    e = strip_block(e)
    if e.get('k') == 'lit':
        return 'true' if e['v']['v'] is True else 'false'
    if e.get('k') == 'binary' and e.get('op') in ('Ne', 'Eq'):
        a, b = local_val(e['l'], env), local_val(e['r'], env)
        if a and b and {a, b} == {('val', 'c'), ('val', 'x')}:
            return 'c!=x' if e['op'] == 'Ne' else 'c==x'
    raise NoMatch('value_changed expression')


def insert_outcome(body, env):
    b = body
    # the outcome is the last statement / tail of the arm; earlier statements are not part of the decision
    while isinstance(b, dict) and b.get('k') == 'block':
        if 'tail' in b:
            b = b['tail']
        elif b['stmts']:
            b = b['stmts'][-1]
        else:
            raise NoMatch('empty arm')
    if b.get('k') == 'return':
        c = b['e']
        if c.get('k') == 'call' and short(callee(c)) == 'Err':
            return ('Err', short(ctor_name(c['args'][0]) or '?'))
        raise NoMatch('return of something else than Err(..)')
    if b.get('k') == 'tuple' and len(b['elems']) == 3:
        existed, changed, val = b['elems']
        if existed.get('k') != 'lit':
            raise NoMatch('value_existed is not a literal')
        ex = existed['v']['v']
        ch = changed_expr(changed, env)
        ctor = short(ctor_name(val) or '?')
        if ctor == 'Plain':
            stored = ('Plain',)
        elif ctor == 'Cas':
            stored = ('Cas', version_expr(val['args'][1], env))
        else:
            raise NoMatch('stored value ctor ' + ctor)
        return ('Ok', ex, ch, stored)
    raise NoMatch('arm body ' + str(b.get('k')))


def insert_spec(cur, new, v, force):
    existed = cur != 'None'
    ch = 'true' if cur == 'None' else 'c!=x'
    if force:
        return None
    if new == 'Plain':
        return ('Err', 'Cas') if cur == 'Cas' else ('Ok', existed, ch, ('Plain',))
    if cur != 'Cas':
        return ('Ok', existed, ch, ('Cas', '1')) if v[0] == 'zero' else ('Err', 'CasVersionMismatch')
    return ('Ok', existed, ch, ('Cas', 'V+1')) if v[1] == 'eq' else ('Err', 'CasVersionMismatch')


def find_insert_match(crate):
    f = crate.fn(f'{STORE}::insert')
    ms = [n for n, a in crate.walk_fn(f) if n.get('k') == 'match' and n['scrut'].get('k') == 'tuple'
          and 'ValueEntry' in str(n.get('scrut_ty'))]
    if len(ms) != 1:
        raise AnchorMissing(f'the value/CAS decision match in Store::insert ({len(ms)} candidates)')
    return f, ms[0]


def insert_table(crate):
    f, m = find_insert_match(crate)
    # scrutinee must be (current_node.value(), <param value>, <param force>)
    b = Bindings(crate, f)
    el = m['scrut']['elems']
    o0 = peel_call(el[0])
    if len(el) != 3 or not (o0 and o0.endswith('Node::<K, V>::value')):
        raise NoMatch('scrutinee is not (node.value(), value, force)')
    if b.origins(el[1]) != {'param(value)'} or b.origins(el[2]) != {'param(force)'}:
        raise NoMatch(f'scrutinee operands derive from {b.origins(el[1])}, {b.origins(el[2])}')
    table = {}
    for inp in insert_inputs():
        val, rel = insert_absval(*inp)
        out = ('NO ARM',)
        for arm in m['arms']:
            env = {}
            if match_pat(arm['pat'], val, env) and ('guard' not in arm or eval_guard(arm['guard'], env, rel)):
                out = insert_outcome(arm['body'], env)
                break
        table[inp] = out
    return f, m, table


def peel_call(e):
    while isinstance(e, dict) and e.get('k') in ('ref', 'unary', 'cast'):
        e = e['e']
    if isinstance(e, dict) and e.get('k') == 'call':
        return callee(e)
    return None


def rule_a(prog, rep):
    rep.rule('C02.a', 'T5', 'decision table of Store::insert: the match over (current value, new value, force) evaluated on the '
             'finite product {None,Plain,Cas(vc)} x {Plain,Cas(v)} x {v=0, v!=0} x {v<vc, v=vc, v>vc} x {force} must equal the '
             'specification for force=false: plain over none/plain stores plain; plain over CAS -> Err(Cas); CAS(v) over '
             'none/plain -> v=0 ? Cas(1) : Err(CasVersionMismatch); CAS(v) over CAS(vc) -> v=vc ? Cas(v+1) : '
             'Err(CasVersionMismatch); value_existed <=> current != None; value_changed = (current value != new value)')
    crate = prog.crate(WB)
    try:
        f, m, table = insert_table(crate)
    except NoMatch as e:
        rep.violation('C02.a', 'Store::insert', '', f'unrecognised-shape: {e}', key='C02.a/insert/unrecognised-shape')
        return
    n = 0
    for inp, out in table.items():
        sp = insert_spec(*inp)
        row = f'cur={inp[0]},new={inp[1]},v={inp[2]},force={inp[3]}'
        if sp is None:
            # forced (internal) insert: always accepted, stores the kind it was given; the bookkeeping components follow the
            # same formula (value_existed feeds Store::len, value_changed the notifications). The stored version is reported
            # in the evidence, not judged.
            existed = inp[0] != 'None'
            want_f = ('Ok', existed, 'true' if inp[0] == 'None' else 'c!=x', inp[1])
            got_f = (out[0], out[1], out[2], out[3][0]) if out and out[0] == 'Ok' and len(out) == 4 else out
            if got_f == want_f:
                rep.ok('C02.a', row, loc(f, m), f'-> {out}')
            else:
                rep.violation('C02.a', row, loc(f, m), f'Store::insert forced row ({row}) -> {out}', key=f'C02.a/insert/{row}',
                              expected=str(want_f) + ' (accepted; existed <=> a value was present; changed <=> values differ)')
            continue
        n += 1
        if sp == out:
            rep.ok('C02.a', row, loc(f, m), f'-> {out}')
        else:
            rep.violation('C02.a', row, loc(f, m), f'Store::insert row ({row}) -> {out}', key=f'C02.a/insert/{row}',
                          expected=str(sp))
    rep.floor('C02.a', n, 12, 'force=false rows')
    # the decided entry is what gets stored: every Ok exit of insert passes set_value(<3rd component of the decision>)
    from ..trace import Tracer, ok_exits, base
    b = Bindings(crate, f)
    sets = crate.calls(f, lambda c: c.endswith('Node::<K, V>::set_value'))

    def classify(n_, anc):
        if n_.get('k') == 'call' and callee(n_).endswith('Node::<K, V>::set_value'):
            return 'set'
        return None
    paths = Tracer(crate, classify, max_paths=20000).run_fn(f)
    oks = ok_exits(paths)
    unset = [t for (ex, t, v) in oks if 'set' not in [base(x) for x in t]]
    src = b.origins(sets[0][0]['args'][1]) if len(sets) == 1 else set()
    from_match = False
    if len(sets) == 1:
        arg = b.deref_local(sets[0][0]['args'][1])
        bd = b.by_id.get(sets[0][0]['args'][1].get('id')) if sets[0][0]['args'][1].get('k') == 'path' else None
        from_match = bool(bd) and bd[1][0] == 'let' and bd[1][1] is m and bd[2] == ('[2]',)
    if len(sets) == 1 and not unset and oks and from_match:
        rep.ok('C02.a', 'Store::insert:store-decided-entry', loc(f, sets[0][0]),
               f'{len(oks)} Ok paths, all pass set_value(<3rd component of the decision>)')
    else:
        rep.violation('C02.a', 'Store::insert:store-decided-entry', f.loc,
                      f'set_value sites={len(sets)}, Ok paths that skip set_value={len(unset)}, argument is the decided '
                      f'entry={from_match}', key='C02.a/insert/store-decided-entry',
                      expected='every Ok exit stores the entry the decision table produced')
    rep.analysed['insert_table_force_rows'] = {f'cur={i[0]},new={i[1]},v={i[2]}': str(o) for i, o in table.items() if i[3]}
    # insert_plain / insert_cas wrap the value in the right variant
    for w, ctor in (('insert_plain', 'Plain'), ('insert_cas', 'Cas')):
        wf = crate.fn(f'{STORE}::{w}')
        calls = crate.calls(wf, lambda c: c == f'{STORE}::insert')
        okk = False
        if len(calls) == 1:
            a = calls[0][0]['args']
            bb = Bindings(crate, wf)
            c = ctor_name(a[2]) or ''
            okk = c.endswith('ValueEntry::' + ctor) and bb.origins(a[3]) == {'param(force)'} and \
                bb.origins(a[1]) == {'param(path)'} and bb.origins(a[2]['args'][0]) == {'param(value)'}
            if ctor == 'Cas':
                okk = okk and bb.origins(a[2]['args'][1]) == {'param(version)'}
        if okk:
            rep.ok('C02.a', f'Store::{w}', wf.loc, f'delegates to insert(path, ValueEntry::{ctor}(..), force)')
        else:
            rep.violation('C02.a', f'Store::{w}', wf.loc, f'does not delegate to insert(path, ValueEntry::{ctor}(value..), force)',
                          key=f'C02.a/{w}/delegation')


def rule_b(prog, rep):
    rep.rule('C02.b', 'T5', 'reported version (Store::cget): Plain(value) -> (value, 0); Cas(value, v) -> (value, v)')
    crate = prog.crate(WB)
    f = crate.fn(f'{STORE}::cget')
    ms = [n for n, a in crate.walk_fn(f) if n.get('k') == 'match']
    if len(ms) != 1:
        raise AnchorMissing('match in Store::cget')
    m = ms[0]
    seen = {}
    for cur, val in (('Plain', ('variant', 'Plain', (('val', 'c'),))), ('Cas', ('variant', 'Cas', (('val', 'c'), ('ver', 'any', 'VC'))))):
        out = None
        try:
            for arm in m['arms']:
                env = {}
                if match_pat(arm['pat'], val, env):
                    b = strip_block(arm['body'])
                    if b.get('k') == 'call' and short(callee(b)) == 'Some' and b['args'][0].get('k') == 'tuple':
                        v0, v1 = b['args'][0]['elems']
                        out = (local_val(v0, env), version_expr(v1, env))
                    break
        except NoMatch as e:
            out = ('unrecognised-shape', str(e))
        want = (('val', 'c'), '0' if cur == 'Plain' else 'VC')
        if out == want:
            rep.ok('C02.b', f'cget:{cur}', loc(f, m), f'-> (value, {want[1]})')
        else:
            rep.violation('C02.b', f'cget:{cur}', loc(f, m), f'Store::cget on {cur} -> {out}', key=f'C02.b/cget/{cur}',
                          expected=str(want))


WRAPPERS = ('Arc', 'Rc', 'Mutex', 'RwLock', 'RefCell', 'Cell', 'UnsafeCell', 'OnceCell', 'OnceLock', 'Weak', 'AtomicPtr')
TARGETS = ('worterbuch::Worterbuch', 'store::Store')


def wrapped_target(ty):
    """does the type string contain Wrapper<... Target ...> ?"""
    for w in WRAPPERS:
        for m in re.finditer(r'\b' + w + r'<', ty):
            depth = 0
            i = m.end() - 1
            j = i
            while j < len(ty):
                if ty[j] == '<':
                    depth += 1
                elif ty[j] == '>':
                    depth -= 1
                    if depth == 0:
                        break
                j += 1
            inner = ty[i + 1:j]
            for t in TARGETS:
                if re.search(r'(^|[^\w:])(crate::)?' + re.escape(t) + r'($|[^\w:])', inner):
                    return w, t
    return None


def rule_c(prog, rep):
    rep.rule('C02.c', 'T8', 'single owner: no field, call result or local of the server crate wraps Worterbuch / Store in '
             'Arc/Rc/Mutex/RwLock/RefCell/Cell; neither type implements Clone; Store and Node have no interior-mutability '
             'fields; with the borrow checker this makes every process_api_call an atomic step on exclusively owned state')
    crate = prog.crate(WB)
    n = 0
    bad = 0
    for path, a in crate.adts.items():
        for v in a['variants']:
            for fl in v['fields']:
                n += 1
                w = wrapped_target(fl['ty'])
                if w:
                    bad += 1
                    rep.violation('C02.c', f'{path}.{fl["name"]}', f'{a["file"]}:{a["line"]}',
                                  f'field type {fl["ty"]} shares {w[1]} through {w[0]}', key=f'C02.c/field/{path}.{fl["name"]}')
    ncalls = 0
    for f in crate.fns.values():
        for node, anc in walk(f.hir):
            if node.get('k') == 'call' and node.get('ty'):
                ncalls += 1
                w = wrapped_target(str(node['ty']))
                if w:
                    bad += 1
                    top = crate.owner_fn(f)
                    rep.violation('C02.c', f'{top.path}:{short(callee(node))}', loc(f, node),
                                  f'expression of type {node["ty"]} shares {w[1]} through {w[0]}',
                                  key=f'C02.c/expr/{top.path}/{w[0]}<{w[1]}>')
    for imp in crate.impls:
        if imp.get('trait') and short(imp['trait']) in ('Clone', 'Copy') and imp['self_ty'] in TARGETS:
            bad += 1
            rep.violation('C02.c', f'impl {short(imp["trait"])} for {imp["self_ty"]}', f'{imp["file"]}:{imp["line"]}',
                          'the exclusively owned core state became clonable', key=f'C02.c/impl/{short(imp["trait"])}/{imp["self_ty"]}')
    for t in ('store::Store', 'store::Node', 'store::Lock', 'worterbuch::Worterbuch'):
        a = crate.adt(t)
        for v in a['variants']:
            for fl in v['fields']:
                if re.search(r'\b(RefCell|Cell|Mutex|RwLock|Atomic\w+|UnsafeCell|OnceCell)\b', fl['ty']) and \
                        fl['name'] not in ('persistent_storage', 'config'):
                    bad += 1
                    rep.violation('C02.c', f'{t}.{fl["name"]}', f'{a["file"]}:{a["line"]}', f'interior mutability: {fl["ty"]}',
                                  key=f'C02.c/interior/{t}.{fl["name"]}')
    if not bad:
        rep.ok('C02.c', 'single-owner', '', f'{n} fields of {len(crate.adts)} types and {ncalls} call result types inspected; '
               'no shared / clonable / interior-mutable core state')
    # positive control: the detector must recognise a wrapped target
    ctrl = wrapped_target('std::sync::Arc<tokio::sync::Mutex<worterbuch::Worterbuch>>') and \
        not wrapped_target('std::sync::Arc<tokio::sync::Mutex<config::Config>>')
    if ctrl:
        rep.ok('C02.c', 'positive-control', '', 'detector fires on Arc<Mutex<Worterbuch>> and not on Arc<Mutex<Config>>')
    else:
        rep.violation('C02.c', 'positive-control', '', 'wrapper detector broken', key='C02.c/positive-control')
    # the core is moved into exactly one of the run loops, taken by value / &mut
    for fn_ in ('run_in_regular_mode', 'leader_follower::leader::run_in_leader_mode', 'leader_follower::follower::run_in_follower_mode'):
        f = crate.fn(fn_)
        if 'worterbuch::Worterbuch' in f.sig and '&' not in f.sig.split('worterbuch::Worterbuch')[0].split(',')[-1]:
            rep.ok('C02.c', f'{short(fn_)}:owner', f.loc, 'takes the core by value')
        else:
            rep.violation('C02.c', f'{short(fn_)}:owner', f.loc, f'signature {f.sig[:200]}', key=f'C02.c/owner/{short(fn_)}')


# WbFunction variant -> (core method, positions of the variant's fields passed, extra constant operands)
API_TABLE = {
    'Get': 'get', 'CGet': 'cget', 'Set': 'set', 'CSet': 'cset', 'SPubInit': 'spub_init', 'SPub': 'spub', 'Publish': 'publish',
    'Ls': 'ls', 'PLs': 'pls', 'PGet': 'pget', 'Subscribe': 'subscribe', 'PSubscribe': 'psubscribe',
    'SubscribeLs': 'subscribe_ls', 'Unsubscribe': 'unsubscribe', 'UnsubscribeLs': 'unsubscribe_ls', 'Delete': 'delete',
    'PDelete': 'pdelete', 'Lock': 'lock', 'AcquireLock': 'acquire_lock', 'ReleaseLock': 'release_lock',
    'Connected': 'connected', 'ProtocolSwitched': 'protocol_switched', 'Disconnected': 'disconnected', 'Config': 'config',
    'Export': 'export_for_persistence', 'Import': 'import', 'Len': 'len',
}


def api_match(crate, f):
    for node, anc in crate.walk_fn(f):
        if node.get('k') == 'match' and 'WbFunction' in str(node.get('scrut_ty')):
            return node
    raise AnchorMissing(f'match over WbFunction in {f.path}')


def rule_d(prog, rep):
    rep.rule('C02.d', 'T4', 'one request = one message = one core call: every WbApi method of CloneableWbApi constructs exactly '
             'one WbFunction variant (the same-named one); process_api_call maps every variant to exactly one call of the '
             'same-named Worterbuch method, passing the variant fields in order; Set and CSet pass the constant force=false')
    crate = prog.crate(WB)
    f = crate.fn('process_api_call')
    m = api_match(crate, f)
    b = Bindings(crate, f)
    variants = enum_variants(crate, 'server::common::WbFunction')
    seen = set()
    for arm in m['arms']:
        for v in pat_variants(arm['pat']):
            if v == '_':
                rep.violation('C02.d', 'process_api_call:catch-all', f'{f.file}:{arm.get("ln")}', 'catch-all arm hides request kinds',
                              key='C02.d/process_api_call/catch-all')
                continue
            sv = short(v)
            seen.add(sv)
            want = API_TABLE.get(sv)
            core_calls = [n for n, a in walk(arm['body']) if n.get('k') == 'call' and callee(n).startswith(CORE + '::')]
            if want is None:
                rep.violation('C02.d', f'process_api_call:{sv}', f'{f.file}:{arm.get("ln")}', 'variant not in the spec table',
                              key=f'C02.d/process_api_call/{sv}/unknown')
                continue
            if len(core_calls) != 1 or short(callee(core_calls[0])) != want:
                rep.violation('C02.d', f'process_api_call:{sv}', f'{f.file}:{arm.get("ln")}',
                              f'arm calls {[short(callee(c)) for c in core_calls]}', key=f'C02.d/process_api_call/{sv}/call',
                              expected=f'exactly one call of Worterbuch::{want}')
                continue
            call = core_calls[0]
            # operands: variant fields in order
            args = call['args'][1:]
            origins = [b.origins(a) for a in args]
            okk = True
            detail = []
            pos = 0
            for a, o in zip(args, origins):
                if len(o) == 1 and next(iter(o)).startswith('lit('):
                    detail.append(next(iter(o)))
                    continue
                exp = f'param(function)#{sv}.{pos}'
                if o != {exp}:
                    okk = False
                detail.append(','.join(sorted(o)).replace('param(function)', ''))
                pos += 1
            if sv in ('Set', 'CSet'):
                if not origins or origins[-1] != {'lit(False)'}:
                    okk = False
            if okk:
                rep.ok('C02.d', f'process_api_call:{sv}', f'{f.file}:{arm.get("ln")}', f'-> Worterbuch::{want}({", ".join(detail)})')
            else:
                rep.violation('C02.d', f'process_api_call:{sv}', f'{f.file}:{arm.get("ln")}',
                              f'Worterbuch::{want} called with operands {detail}', key=f'C02.d/process_api_call/{sv}/operands',
                              expected='variant fields in order' + (', force = false' if sv in ('Set', 'CSet') else ''))
    for v in variants:
        if v not in seen:
            rep.violation('C02.d', f'process_api_call:{v}', f.loc, 'variant has no arm', key=f'C02.d/process_api_call/{v}/missing')
    rep.floor('C02.d', len(seen), 27, 'WbFunction variants dispatched')
    # CloneableWbApi methods construct exactly one (same-named) WbFunction
    n = 0
    for fn_ in crate.top_fns():
        if 'WbApi for server::CloneableWbApi' not in fn_.path:
            continue
        ctors = [ctor_name(nd) for nd, a in crate.walk_fn(fn_) if ctor_name(nd) and 'WbFunction::' in (ctor_name(nd) or '')]
        name = short(fn_.path)
        if not ctors:
            continue
        n += 1
        want = [k for k, v in API_TABLE.items() if v == name or (name == 'export' and k == 'Export') or (name == 'entries' and k == 'Len')]
        got = {short(c) for c in ctors}
        # operands: the method's parameters, in order, are the leading fields of the variant (then the answer channel / span)
        order_ok = True
        detail = ''
        if len(ctors) == 1:
            cnode = [nd for nd, a in crate.walk_fn(fn_) if ctor_name(nd) and 'WbFunction::' in (ctor_name(nd) or '')][0]
            fb = Bindings(crate, fn_)
            pnames = [x.get('name') for x in fn_.params if isinstance(x, dict) and x.get('k') == 'bind' and x.get('name') != 'self']
            ref = fb.rename
            pnames = [ref.get(x, x) for x in pnames]
            # a tracing::Span parameter is diagnostics, not an operand
            m_sig = re.match(r'fn\((.*)\) -> ', fn_.sig or '')
            ptys = []
            if m_sig:
                depth, cur = 0, ''
                for ch in m_sig.group(1):
                    if ch in '([<{':
                        depth += 1
                    elif ch in ')]>}':
                        depth -= 1
                    if ch == ',' and depth == 0:
                        ptys.append(cur.strip())
                        cur = ''
                    else:
                        cur += ch
                ptys.append(cur.strip())
                ptys = ptys[1:]   # self
            if len(ptys) == len(pnames):
                pnames = [pn for pn, ty in zip(pnames, ptys) if ty != 'tracing::Span']
            for i, pn in enumerate(pnames):
                if i >= len(cnode['args']) or fb.origins(cnode['args'][i]) != {f'param({pn})'}:
                    order_ok = False
                    detail = f'field {i} <- {sorted(fb.origins(cnode["args"][i])) if i < len(cnode["args"]) else "missing"}, expected parameter `{pn}`'
                    break
        if len(ctors) == 1 and (not want or got & set(want)) and not order_ok:
            rep.violation('C02.d', f'WbApi::{name}:operands', fn_.loc, f'WbFunction::{short(ctors[0])} is not built from the parameters in order: {detail}',
                          key=f'C02.d/WbApi/{name}/operands', expected='variant fields = method parameters in order, then the answer channel')
        elif len(ctors) == 1 and (not want or got & set(want)):
            rep.ok('C02.d', f'WbApi::{name}', fn_.loc, f'constructs WbFunction::{short(ctors[0])} once, from its parameters in order')
        else:
            rep.violation('C02.d', f'WbApi::{name}', fn_.loc, f'constructs {sorted(got)} ({len(ctors)} sites)',
                          key=f'C02.d/WbApi/{name}', expected=f'one WbFunction::{want}')
    rep.floor('C02.d', n, 20, 'WbApi methods')


def rule_e(prog, rep):
    rep.rule('C02.e', 'MIR', 'no unchecked arithmetic on a client-supplied version: Store::insert contains no overflow-checked '
             '`+` on the request version (MIR Assert(Overflow)); a debug build panics and a release build wraps to 0 '
             '(version goes backwards) at u64::MAX')
    crate = prog.crate(WB)
    f = crate.fn(f'{STORE}::insert')
    sites = []
    for bb in (f.mir or {}).get('blocks', []):
        t = bb['term']
        if t.get('t') == 'assert' and 'Overflow' in t.get('msg', '') and not t.get('x'):
            sites.append(t)
    # only those on u64 version operands: the `self.len += 1` is usize bookkeeping (bounded by memory)
    ver = []
    for t in sites:
        if 'Add' in t['msg']:
            ver.append(t)
    # distinguish len bookkeeping by line of the `self.len` assignop
    len_lines = {n.get('ln') for n, a in crate.walk_fn(f) if n.get('k') == 'assignop' and n['l'].get('k') == 'field'
                 and n['l']['name'] == 'len'}
    ver = [t for t in ver if t.get('ln') not in len_lines]
    if not f.mir or 'blocks' not in f.mir:
        raise AnchorMissing('MIR of Store::insert')
    if ver:
        rep.violation('C02.e', 'Store::insert:v+1', f'{f.file}:{ver[0].get("ln")}',
                      f'{len(ver)} overflow-checked additions on the version operand', key='C02.e/insert/version-overflow',
                      expected='checked_add / saturating arithmetic with an error answer')
    else:
        rep.ok('C02.e', 'Store::insert:v+1', f.loc, 'no overflow-checked addition on the version')


def rule_f(prog, rep):
    rep.rule('C02.f', 'T7', 'client retry loop (worterbuch-client try_update): the version handed to cset derives from the '
             'version returned by the cget of the same attempt (or is the literal 0 when the key is absent); the retry '
             'happens only for a ServerResponse error; the attempt counter is bounded and incremented')
    crate = prog.crate(CLIENT)
    f = crate.fn('Worterbuch::try_update')
    b = Bindings(crate, f)
    csets = crate.calls(f, lambda c: c.endswith('Worterbuch::cset'))
    if len(csets) != 1:
        raise AnchorMissing(f'cset call in try_update ({len(csets)})')
    call = csets[0][0]
    o = b.origins(call['args'][3])
    want = {'call(Worterbuch::cget)#Some.0[1][1]', 'lit(0)[1]'}
    good = all((x.startswith('call(') and 'Worterbuch::cget)' in x and x.endswith('[1]')) or x == 'lit(0)' for x in o) \
        and any('cget' in x for x in o)
    if good:
        rep.ok('C02.f', 'try_update:version', loc(f, call), f'cset version <- {sorted(o)}')
    else:
        rep.violation('C02.f', 'try_update:version', loc(f, call), f'cset version derives from {sorted(o)}',
                      key='C02.f/try_update/version', expected='version component of the cget result, or literal 0')
    # retry only in the ServerResponse arm, with counter + 1
    rec = crate.calls(f, lambda c: c.endswith('Worterbuch::try_update'))
    if len(rec) != 1:
        rep.violation('C02.f', 'try_update:retry', f.loc, f'{len(rec)} recursive calls', key='C02.f/try_update/retry-count')
    else:
        node, anc = rec[0]
        arm_ok = False
        for a in anc:
            if a.get('k') == 'match':
                for arm in a['arms']:
                    if any(n is node for n, _ in walk(arm['body'])):
                        arm_ok = pat_variants(arm['pat']) == {'error::ConnectionError::ServerResponse'} or \
                            {short(x) for x in pat_variants(arm['pat'])} == {'ServerResponse'}
        cnt = node['args'][3] if len(node['args']) > 3 else None
        cnt_ok = bool(cnt) and cnt.get('k') == 'binary' and cnt.get('op') == 'Add' and b.origins(cnt['l']) == {'param(counter)'} \
            and cnt['r'].get('k') == 'lit' and cnt['r']['v']['v'] >= 1
        if arm_ok and cnt_ok:
            rep.ok('C02.f', 'try_update:retry', loc(f, node), 'retry only on ServerResponse, counter + 1')
        else:
            rep.violation('C02.f', 'try_update:retry', loc(f, node), f'retry arm ok={arm_ok}, counter increment ok={cnt_ok}',
                          key='C02.f/try_update/retry')
    # bound
    bound = [n for n, a in crate.walk_fn(f) if n.get('k') == 'binary' and n.get('op') in ('Ge', 'Gt') and
             b.origins(n['l']) == {'param(counter)'} and n['r'].get('k') == 'lit']
    if bound:
        rep.ok('C02.f', 'try_update:bound', loc(f, bound[0]), f'attempts bounded by {bound[0]["r"]["v"]["v"]}')
    else:
        rep.violation('C02.f', 'try_update:bound', f.loc, 'no bound on the retry counter', key='C02.f/try_update/bound')


def rule_g(prog, rep):
    rep.rule('C02.g', 'T7', 'the compare-and-swap decision is the store\'s, on the request\'s own operands: Worterbuch::cset passes '
             'value, version and force to Store::insert_cas exactly as it received them (Worterbuch::set likewise to insert_plain); '
             'a core that forces or rewrites the version for some caller lets two writers win one version')
    from .corefx import core_write_operands
    core_write_operands(prog, rep, 'C02.g')


def rule_h(prog, rep):
    rep.rule('C02.h', 'T3', "the client learns a lost race: the client's cset / cget / locked-update methods examine the server's verdict "
             "(= C20.g restricted to these methods) - a CasVersionMismatch that is dropped on the way makes the loser of a race "
             'believe its update was applied')
    from . import c20

    class Only(Proxy):
        def ok(self, rid, inst, loc_='', detail=''):
            if 'cset' in inst.lower() or 'cget' in inst.lower() or 'update' in inst.lower() or 'lock' in inst.lower():
                super().ok(rid, inst, loc_, detail)

        def violation(self, rid, inst, loc_='', detail='', key=None, expected=''):
            if 'cset' in inst.lower() or 'cget' in inst.lower() or 'update' in inst.lower() or 'lock' in inst.lower():
                super().violation(rid, inst, loc_, detail, key=key, expected=expected)

        def floor(self, rid, found, minimum, what):
            pass
    c20.rule_g(prog, Only(rep, 'C02.h'))


RULES = [('C02.h', rule_h), ('C02.g', rule_g), ('C02.a', rule_a), ('C02.b', rule_b), ('C02.c', rule_c), ('C02.d', rule_d), ('C02.e', rule_e), ('C02.f', rule_f)]
