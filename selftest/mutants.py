"""Self-test corpus: realistic edits of /repo that break one structural clause each, still compile, and must make the named rule fire.

Each mutant: (id, property, file, old, new, rule that must report it).  Applied to a scratch copy by exact text replacement
(`old` must occur exactly once, otherwise the mutant is reported as `skipped` - the tree moved on).  The seeded mutants
written by independent sub-agents (seeded/<id>/patch.diff) are part of the corpus too.
"""

M = []


def m(mid, prop, file, old, new, rule):
    M.append({'id': mid, 'property': prop, 'file': file, 'old': old, 'new': new, 'rule': rule})


W = 'worterbuch/src/'
# ---------------------------------------------------------------- C01
m('C01-m1', 'C01', W + 'store.rs', '        if removed.is_some() {\n            self.len -= 1;\n        }\n', '', 'C01.c')
m('C01-m2', 'C01', W + 'store.rs', '''                ls_subscribers,
            )?;
            if node.trim() {
                let new_children = node.ls_owned();
                if let Some(subscribers) = subscribers.as_ref()
                    && !subscribers.ls_subscribers.is_empty()
                {
                    let subscribers = subscribers.ls_subscribers.clone();
                    ls_subscribers
                        .get_or_insert_default()
                        .push((subscribers, new_children));
                }
            }
            Ok(val)''', '''                ls_subscribers,
            )?;
            Ok(val)''', 'C01.e')
m('C01-m3', 'C01', W + 'worterbuch.rs', '''        match self.store.delete(&path)? {
            Some((value, ls_subscribers)) => {''', '''        match self.store.delete(&path)? {
            Some((value, ls_subscribers)) => {
                parse_segments(&format!("{key}/"))?;''', 'C01.a')
# ---------------------------------------------------------------- C02
m('C02-m1', 'C02', W + 'store.rs', 'if v_curr == &v =>', 'if v_curr <= &v =>', 'C02.a')
m('C02-m2', 'C02', W + 'store.rs', '''                // cas value present, we can insert new cas value if the version matches
                (true, current != &val, ValueEntry::Cas(val, v + 1))''', '''                // cas value present, we can insert new cas value if the version matches
                (true, current != &val, ValueEntry::Cas(val, v))''', 'C02.a')
m('C02-m3', 'C02', W + 'lib.rs', 'tx.send(worterbuch.cset(key, value, version, client_id, false).await)',
  'tx.send(worterbuch.cset(key, value, version, client_id, true).await)', 'C02.d')
m('C02-m4', 'C02', 'worterbuch-client/src/lib.rs', 'Some((val, version)) => (transform(Some(val)), version),',
  'Some((val, version)) => (transform(Some(val)), version + 1),', 'C02.f')
# ---------------------------------------------------------------- C03
m('C03-m1', 'C03', W + 'worterbuch.rs', '''                self.notify_subscribers(&path, &key, &value, true, true)
                    .await;
                Ok(value)''', '''                Ok(value)''', 'C03.a')
m('C03-m2', 'C03', W + 'worterbuch.rs', '.filter(|s| value_changed || !s.is_unique())', '.filter(|s| value_changed && !s.is_unique())', 'C03.c')
m('C03-m3', 'C03', W + 'worterbuch.rs', '''        if !live_only {
            let matches = self.pget(&pattern)?;''', '''        if live_only {
            let matches = self.pget(&pattern)?;''', 'C03.e')
m('C03-m4', 'C03', W + 'worterbuch.rs', '''            let path = parse_segments(&kvp.key)?;
            self.notify_subscribers(&path, &kvp.key, &kvp.value, true, true)''', '''            let path = parse_segments(&kvp.key)?;
            self.notify_subscribers(&path, &kvp.key, &kvp.value, true, false)''', 'C03.b')
# ---------------------------------------------------------------- C04
m('C04-m1', 'C04', W + 'store.rs', '''                    Store::ndelete_child_matches(
                        node,
                        &id,
                        traversed_path,
                        matches,
                        tail,''', '''                    Store::ndelete_child_matches(
                        node,
                        &id,
                        traversed_path,
                        matches,
                        relative_path,''', 'C04.b')
m('C04-m2', 'C04', W + 'subscribers.rs', '''        if let Some(node) = current.tree.get(&KeySegment::MultiWildcard) {
            add_all_children(node, all_subscribers);
        }

''', '', 'C04.a')
# ---------------------------------------------------------------- C05
m('C05-m1', 'C05', W + 'worterbuch.rs', '''        if let Some(ls_subscribers) = ls_subscribers {
            trace!("Notifying ls subscribers …");
            self.notify_ls_subscribers(ls_subscribers).await;
            trace!("Notifying ls subscribers done.");
        }
        trace!("Notifying subscribers …");
        self.notify_subscribers(&path, &key, &value, changed, false)
            .await;
        trace!("Notifying subscribers done.");

        Ok(())
    }

    pub async fn spub_init(''', '''        drop(ls_subscribers);
        trace!("Notifying subscribers …");
        self.notify_subscribers(&path, &key, &value, changed, false)
            .await;
        trace!("Notifying subscribers done.");

        Ok(())
    }

    pub async fn spub_init(''', 'C05.a')
m('C05-m2', 'C05', W + 'worterbuch.rs', '''        self.store.add_ls_subscriber(&path, subscriber);
        tx.send(children)
            .await
            .expect("rx is neither closed nor dropped");''', '''        self.store.add_ls_subscriber(&path, subscriber);
        drop(children);''', 'C05.e')
# ---------------------------------------------------------------- C06
m('C06-m1', 'C06', W + 'store.rs', 'if let Some((id, txs)) = self.candidates.pop_front() {', 'if let Some((id, txs)) = self.candidates.pop_back() {', 'C06.')
m('C06-m2', 'C06', W + 'store.rs', '''            self.candidates.retain(|(c, _)| c != &client_id);
            (false, Some(self.holder))''', '''            self.candidates.retain(|(c, _)| c != &client_id);
            self.holder = client_id;
            (false, Some(self.holder))''', 'C06.a')
m('C06-m3', 'C06', W + 'worterbuch.rs', '''        if let Some(keys) = self.store.unlock_all(client_id).await
            && self.config.extended_monitoring
            && !keys.is_empty()
        {
            info!("Dropping locks of client {}.", client_id);
            for (key, client_id) in keys {
                self.locked(client_id, &key).await;
            }
        }
''', '', 'C06.e')
# ---------------------------------------------------------------- C07
m('C07-m1', 'C07', W + 'server/tcp.rs', '''        if let Err(e) = serve_loop(subsys, client_id, remote_addr, worterbuch.clone(), socket).await
        {
            error!("Error in serve loop: {e}");
        }''', '''        serve_loop(subsys, client_id, remote_addr, worterbuch.clone(), socket).await?;''', 'C07.a')
m('C07-m2', 'C07', W + 'worterbuch.rs', '''                if let Err(e) = self
                    .set(last_will.key, last_will.value, client_id, true)
                    .await''', '''                if let Err(e) = self
                    .set(last_will.key, last_will.value, client_id, false)
                    .await''', 'C07.c')
m('C07-m3', 'C07', W + 'worterbuch.rs', 'if let Err(e) = self.pdelete(grave_good, client_id).await {', 'if let Err(e) = self.pdelete(grave_good, INTERNAL_CLIENT_ID).await {', 'C07.')
# ---------------------------------------------------------------- C08
m('C08-m1', 'C08', W + 'worterbuch.rs', '''    pub async fn delete(&mut self, key: Key, client_id: ClientId) -> WorterbuchResult<Value> {
        check_for_read_only_key(&key, client_id)?;
''', '''    pub async fn delete(&mut self, key: Key, client_id: ClientId) -> WorterbuchResult<Value> {
''', 'C08.a')
m('C08-m2', 'C08', W + 'worterbuch.rs', '''        || path[3] == SYSTEM_TOPIC_CLIENT_NAME
    {''', '''        || path[3] == SYSTEM_TOPIC_CLIENT_NAME
        || path[3] == SYSTEM_TOPIC_SUBSCRIPTIONS
    {''', 'C08.b')
m('C08-m3', 'C08', W + 'worterbuch.rs', 'self.internal_pdelete(pattern, false, client_id).await', 'self.internal_pdelete(pattern, true, client_id).await', 'C08.a')
# ---------------------------------------------------------------- C09
m('C09-m1', 'C09', W + 'persistence/json/v3.rs', 'let json = json!({ "data": data }).to_string();', 'let json = json!({ "store": data }).to_string();', 'C09.b')
m('C09-m2', 'C09', W + 'persistence/json/v3.rs', '''    validate_checksum(json.as_bytes(), &checksum)?;
    Ok(json)''', '''    validate_checksum(json.as_bytes(), &checksum).ok();
    Ok(json)''', 'C09.d')
m('C09-m3', 'C09', W + 'store.rs', '''        let mut original_data = mem::replace(&mut self.data, data_copy);
        original_data.strip();''', '''        let original_data = mem::replace(&mut self.data, data_copy);''', 'C09.c')
# ---------------------------------------------------------------- C10
m('C10-m1', 'C10', W + 'persistence/json/v3.rs', '''    write_file(&tmp_file, data).await?;
    validate_file_content(&tmp_file, data).await?;
    fs::rename(tmp_file, path)
        .instrument(debug_span!("rename"))
        .await?;''', '''    write_file(&tmp_file, data).await?;
    fs::rename(&tmp_file, path)
        .instrument(debug_span!("rename"))
        .await?;
    validate_file_content(path, data).await?;''', 'C10.c')
m('C10-m2', 'C10', W + 'persistence/json/v3.rs', '''    debug!("Exporting database state …");
    let (data, grave_goods, last_will) = worterbuch.export();
    debug!("Exporting database state done.");
''', '''    debug!("Exporting database state …");
    let (data, _, _) = worterbuch.export();
    let (_, grave_goods, last_will) = worterbuch.export();
    debug!("Exporting database state done.");
''', 'C10.d')
# ---------------------------------------------------------------- C11
m('C11-m1', 'C11', W + 'lib.rs', '''        WbFunction::Delete(key, _, _) => {
            if !filter_sys || !key.starts_with(SYSTEM_TOPIC_ROOT_PREFIX) {
                Some(ClientWriteCommand::Delete(key.to_owned()))
            } else {
                None
            }
        }''', '''        WbFunction::Delete(_, _, _) => None,''', 'C11.a')
m('C11-m2', 'C11', W + 'leader_follower/follower.rs', '''        WbFunction::Set(_, _, _, tx, _) => {
            tx.send(Err(WorterbuchError::NotLeader)).ok();
        }''', '''        WbFunction::Set(key, value, client_id, tx, _) => {
            tx.send(worterbuch.set(key, value, client_id, false).await).ok();
        }''', 'C11.g')
m('C11-m3', 'C11', W + 'leader_follower/leader.rs', '''            let (current_state, grave_goods, last_will) = worterbuch.export();
            if state_tx''', '''            let (current_state, grave_goods, last_will) = worterbuch.export();
            tokio::task::yield_now().await;
            if state_tx''', 'C11.d')
# ---------------------------------------------------------------- C12
m('C12-m1', 'C12', W + 'leader_follower/follower.rs', "        _ = persistence_interval.tick() => try_flush(&mut worterbuch).await?,\n", '', 'C12.c')
m('C12-m2', 'C12', 'worterbuch-cluster-orchestrator/src/leader.rs', '''            "--sync-port".to_owned(),
            config.sync_port.to_string(),
''', '', 'C12.e')
# ---------------------------------------------------------------- C13
m('C13-m1', 'C13', W + 'server/common/protocol/v0.rs', '''        let response = State {
            transaction_id: msg.transaction_id,
            event: StateEvent::Deleted(value),
        };''', '''        let response = State {
            transaction_id: 0,
            event: StateEvent::Deleted(value),
        };''', 'C13.c')
m('C13-m2', 'C13', W + 'server/common/protocol/v1.rs', '''        if let Err(e) = self.v0.worterbuch.lock(msg.key, self.v0.client_id).await {
            self.v0.handle_store_error(e, msg.transaction_id).await?;
            return Ok(());
        }''', '''        self.v0.worterbuch.lock(msg.key, self.v0.client_id).await?;''', 'C13.')
m('C13-m3', 'C13', 'worterbuch-common/src/error.rs', 'WorterbuchError::Cas => ErrorCode::Cas,', 'WorterbuchError::Cas => ErrorCode::CasVersionMismatch,', 'C13.f')
# ---------------------------------------------------------------- C14
m('C14-m1', 'C14', 'worterbuch-common/src/server.rs', '''#[derive(Debug, Clone, PartialEq, Eq, Serialize, Deserialize)]
#[serde(rename_all = "camelCase")]
pub enum StateEvent {''', '''#[derive(Debug, Clone, PartialEq, Eq, Serialize, Deserialize)]
#[serde(rename_all = "camelCase", untagged)]
pub enum StateEvent {''', 'C14.a')
m('C14-m2', 'C14', 'worterbuch-common/src/server.rs', 'let mut json = serde_json::to_string(&msg)?;', 'let mut json = serde_json::to_string_pretty(&msg)?;', 'C14.c')
m('C14-m3', 'C14', 'Cargo.toml', 'serde_json = { version = "1.0.140", features = ["float_roundtrip"] }', 'serde_json = "1.0.140"', 'C14.b')
# ---------------------------------------------------------------- C15
m('C15-m1', 'C15', W + 'server/common/protocol/v0.rs', '''            CM::Set(msg) => {
                if self
                    .check_auth(Privilege::Write, &msg.key, authorized, msg.transaction_id)''', '''            CM::Set(msg) => {
                if self
                    .check_auth(Privilege::Read, &msg.key, authorized, msg.transaction_id)''', 'C15.a')
m('C15-m2', 'C15', W + 'auth.rs', '''                if (pattern_segment == KeySegment::Wildcard
                    && key_segment != KeySegment::MultiWildcard)''', '''                if pattern_segment == KeySegment::Wildcard''', 'C15.c')
m('C15-m3', 'C15', W + 'auth.rs', '''            Privilege::Read => {
                if let AuthCheck::Pattern(pattern) = check {
                    if self
                        .worterbuch_privileges
                        .read''', '''            Privilege::Read => {
                if let AuthCheck::Pattern(pattern) = check {
                    if self
                        .worterbuch_privileges
                        .write''', 'C15.b')
m('C15-m4', 'C15', W + 'server/axum/mod.rs', '''    if let Some(privileges) = privileges {
        privileges.authorize(&Privilege::Delete, AuthCheck::Pattern(&pattern))?;
    }
''', '', 'C15.a-rest')
# ---------------------------------------------------------------- C16
m('C16-m1', 'C16', W + 'worterbuch.rs', 'if !self.deleted_buffer.is_empty() || self.key_already_buffered(&kvps) {', 'if !self.deleted_buffer.is_empty() {', 'C16.a')
m('C16-m2', 'C16', W + 'worterbuch.rs', '''    async fn send_current_state(&mut self) -> WorterbuchResult<()> {
        self.send_is_scheduled = false;
''', '''    async fn send_current_state(&mut self) -> WorterbuchResult<()> {
''', 'C16.c')
# ---------------------------------------------------------------- C17
m('C17-m1', 'C17', W + 'worterbuch.rs', '''        match self.store.get(&path) {
            Some(value) => Ok(value.to_owned()),
            None => Err(WorterbuchError::NoSuchValue(key.to_owned())),
        }
    }

    pub fn cget''', '''        Ok(self.store.get(&path).unwrap().to_owned())
    }

    pub fn cget''', 'C17.a')
m('C17-m2', 'C17', W + 'server/common/protocol/mod.rs', '''            Err(e) => {
                error!("Error decoding message: {e}");
                Ok(false)
            }''', '''            Err(e) => {
                error!("Error decoding message: {e}");
                Err(WorterbuchError::InvalidServerResponse(e.to_string()))
            }''', 'C17.c')
# ---------------------------------------------------------------- C18
m('C18-m1', 'C18', W + 'persistence/redb/mod.rs', '''            action => {
                *next_action = Some(action);
                break;
            }''', '''            _ => {
                break;
            }''', 'C18.b')
m('C18-m2', 'C18', W + 'persistence/redb/mod.rs', '''    restore_entries(db, &mut store)?;

    let write_txn = db.begin_write()?;
    apply_pending_grave_goods(&write_txn, &mut store)?;
    apply_pending_last_wills(&write_txn, &mut store)?;''', '''    let write_txn = db.begin_write()?;
    apply_pending_grave_goods(&write_txn, &mut store)?;
    apply_pending_last_wills(&write_txn, &mut store)?;
    restore_entries(db, &mut store)?;''', 'C18.d')
# ---------------------------------------------------------------- C19
OR = 'worterbuch-cluster-orchestrator/src/'
m('C19-m1', 'C19', OR + 'election.rs', '''        if self.votes_in_my_favor >= self.config.quorum {
            info!("This instance is now the leader.");''', '''        if self.votes_in_my_favor + 1 >= self.config.quorum {
            info!("This instance is now the leader.");''', 'C19.a')
m('C19-m2', 'C19', OR + 'election.rs', '''        if !peers.contains(&vote.node_id) {
            return Ok(None);
        }
''', '', 'C19.b')
m('C19-m3', 'C19', OR + 'config.rs', 'let recommended_min_quorum = node_count / 2 + 1;', 'let recommended_min_quorum = node_count.div_ceil(2);', 'C19.d')
# ---------------------------------------------------------------- C20
# (C20-m1, a callback stored in the table of another answer kind, does not compile: the callback types differ - the compiler decides it)
m('C20-m2', 'C20', 'worterbuch-client/src/lib.rs', '''            Command::UnsubscribeAsync(transaction_id, callback) => {
                callbacks.sub.remove(&transaction_id);
                callbacks.psub.remove(&transaction_id);''', '''            Command::UnsubscribeAsync(transaction_id, callback) => {
                callbacks.sub.remove(&transaction_id);''', 'C20.f')


# ======================================================================================================================
# behaviour-preserving edits: the rules must stay SILENT on these (rule = None)
m('C13-r1', 'C13', W + 'server/common/protocol/v0.rs', """    pub async fn get(&self, msg: Get) -> WorterbuchResult<()> {
        let value = match self.worterbuch.get(msg.key).await {
            Ok(it) => it,
            Err(e) => {
                self.handle_store_error(e, msg.transaction_id).await?;
                return Ok(());
            }
        };

        let response = State {
            transaction_id: msg.transaction_id,""", """    pub async fn get(&self, request: Get) -> WorterbuchResult<()> {
        let msg = request;
        let tid = msg.transaction_id;
        let value = match self.worterbuch.get(msg.key).await {
            Ok(it) => it,
            Err(e) => {
                self.handle_store_error(e, tid).await?;
                return Ok(());
            }
        };

        let response = State {
            transaction_id: tid,""", None)
m('C02-r1', 'C02', W + 'store.rs', """            (Some(ValueEntry::Cas(current, _)), ValueEntry::Plain(val), true) => {
                // cas value present, we can insert plain value if insertion is forced
                (true, current != &val, ValueEntry::Plain(val))
            }
            (Some(ValueEntry::Cas(_, _)), ValueEntry::Plain(_), false) => {
                // cas value present, we cannot insert plain value
                return Err(StoreError::Cas);
            }""", """            (Some(ValueEntry::Cas(_, _)), ValueEntry::Plain(_), false) => {
                // cas value present, we cannot insert plain value
                return Err(StoreError::Cas);
            }
            (Some(ValueEntry::Cas(current, _)), ValueEntry::Plain(val), true) => {
                // cas value present, we can insert plain value if insertion is forced
                (true, current != &val, ValueEntry::Plain(val))
            }""", None)
m('C08-r1', 'C08', W + 'worterbuch.rs', 'if path.len() <= 3 || path[1] != SYSTEM_TOPIC_CLIENTS', 'if path.len() < 4 || path[1] != SYSTEM_TOPIC_CLIENTS', None)
m('C17-r1', 'C17', W + 'worterbuch.rs', 'if path.len() <= 3 || path[1] != SYSTEM_TOPIC_CLIENTS', 'if path.len() < 4 || path[1] != SYSTEM_TOPIC_CLIENTS', None)
m('C19-r1', 'C19', OR + 'election.rs', """        if self.votes_in_my_favor >= self.config.quorum {
            info!("This instance is now the leader.");""", """        if self.config.quorum <= self.votes_in_my_favor {
            info!("This instance is now the leader.");""", None)
m('C15-r1', 'C15', W + 'auth.rs', """            (None, None) | (Some(KeySegment::MultiWildcard), Some(_)) => return true,""", """            (Some(KeySegment::MultiWildcard), Some(_)) => return true,
            (None, None) => return true,""", None)
m('C01-r1', 'C01', W + 'worterbuch.rs', """        match self.store.delete(&path)? {
            Some((value, ls_subscribers)) => {""", """        trace!("deleting {key}");
        match self.store.delete(&path)? {
            Some((value, ls_subscribers)) => {""", None)
m('C03-r1', 'C03', W + 'worterbuch.rs', """            .filter(|s| value_changed || !s.is_unique())""", """            .filter(|s| !s.is_unique() || value_changed)""", None)
# or-pattern folded into one guarded arm (the behaviour-preserving half of seeded C02-2)
m('C02-r2', 'C02', W + 'store.rs', """            (Some(ValueEntry::Plain(current)), ValueEntry::Cas(val, 0), _)
            | (Some(ValueEntry::Plain(current)), ValueEntry::Cas(val, _), true) => {
                // plain value present, we can insert cas value if version is 0 or insertion is forced
                (true, current != &val, ValueEntry::Cas(val, 1))
            }
            (Some(ValueEntry::Plain(_)), ValueEntry::Cas(_, _), false) => {""",
  """            (Some(ValueEntry::Plain(current)), ValueEntry::Cas(val, v), force)
                if v == 0 || force =>
            {
                // plain value present, we can insert cas value if version is 0 or insertion is forced
                (true, current != &val, ValueEntry::Cas(val, 1))
            }
            (Some(ValueEntry::Plain(_)), ValueEntry::Cas(_, _), _) => {""", None)
# one pass over the key/value pairs instead of two (the behaviour-preserving half of seeded C03-2)
_KAB_OLD = """        kvps.iter()
            .any(|kvp| self.set_buffer.contains_key(&kvp.key))
            || kvps
                .iter()
                .any(|kvp| self.deleted_buffer.contains_key(&kvp.key))"""
_KAB_NEW = """        kvps.iter().any(|kvp| {
            self.set_buffer.contains_key(&kvp.key) || self.deleted_buffer.contains_key(&kvp.key)
        })"""
m('C16-r1', 'C16', W + 'worterbuch.rs', _KAB_OLD, _KAB_NEW, None)
m('C03-r2', 'C03', W + 'worterbuch.rs', _KAB_OLD, _KAB_NEW, None)
m('C04-m5', 'C04', W + 'store.rs', """        self.value.is_none() && self.is_empty()""", """        self.value.is_none() || self.is_empty()""", 'C04.f')
# parameter rename (reference parameter table)
m('C08-r2', 'C08', W + 'worterbuch.rs', """        skip_read_only_check: bool,
        client_id: ClientId,
    ) -> Result<Vec<worterbuch_common::KeyValuePair>, WorterbuchError> {
        if !skip_read_only_check {""", """        internal: bool,
        client_id: ClientId,
    ) -> Result<Vec<worterbuch_common::KeyValuePair>, WorterbuchError> {
        if !internal {""", None)
# local renames (locals are identified by provenance / shape)
m('C16-r2', 'C16', W + 'worterbuch.rs', 'tick = send_trigger_rx.recv() => if tick.is_some() {', 'fired = send_trigger_rx.recv() => if fired.is_some() {', None)
m('C06-r1', 'C06', W + 'store.rs', """            let (was_holder, new_holder) = lock.release(client_id).await;
            if !was_holder {""", """            let (held, new_holder) = lock.release(client_id).await;
            if !held {""", None)
m('C19-r2', 'C19', OR + 'config.rs', """    let node_count = peers.len() + 1;

    let recommended_min_quorum = node_count / 2 + 1;""", """    let node_count = 1 + peers.len();

    let recommended_min_quorum = node_count / 2 + 1;""", None)
m('C04-m6', 'C04', W + 'store.rs', """        traversed_path.push(id);

        if let Some(child) = node.get_child_mut(id) {""", """        if let Some(child) = node.get_child_mut(id) {""", 'C04.g')
m('C04-m7', 'C04', W + 'store.rs', """                        tail,
                        subscribers,
                        ls_subscribers,
                    )?;
                }
            }
            KeySegment::Regular(head) => {""", """                        tail,
                        subscribers,
                        ls_subscribers,
                    )
                    .ok();
                }
            }
            KeySegment::Regular(head) => {""", 'C04.g')
m('C06-m4', 'C06', W + 'store.rs', 'self.candidates.iter_mut().find(|(id, _)| id == &client_id)', 'self.candidates.iter_mut().find(|(id, _)| id != &client_id)', 'C06.b')
m('C02-m5', 'C02', W + 'store.rs', """                // cas value present, we can insert new cas value if insertion is forced
                (true, current != &val, ValueEntry::Cas(val, v + 1))""", """                // cas value present, we can insert new cas value if insertion is forced
                (false, current != &val, ValueEntry::Cas(val, v + 1))""", 'C02.a')
m('C07-m4', 'C07', W + 'worterbuch.rs', '        self.ls_subscriptions.insert(subscription_id, path);', '        let _ = (subscription_id, path);', 'C07.e')
m('C06-m5', 'C06', W + 'worterbuch.rs', '        self.store.lock(client_id, path)?;', '        self.store.lock(client_id, path).ok();', 'C06.f')
m('C16-m3', 'C16', W + 'worterbuch.rs', """        if !self.deleted_buffer.is_empty() {
            self.send_deleted_event().await?;""", """        if self.deleted_buffer.is_empty() {
            self.send_deleted_event().await?;""", 'C16.b')
m('C03-m5', 'C03', W + 'server/common/protocol/v0.rs', 'let live_only = msg.live_only.unwrap_or(false);', 'let live_only = msg.live_only.unwrap_or(true);', 'C03.j')
m('C13-m4', 'C13', W + 'server/common/protocol/mod.rs', """                            v0.process_incoming_message(msg, authorized).await?;""", """                            let _ = (&v0, &msg);""", 'C13.h')
m('C09-m4', 'C09', W + 'worterbuch.rs', '                        lws.push(kvp);', '                        let _ = kvp;', 'C09.h')
m('C18-m3', 'C18', W + 'persistence/redb/mod.rs', """    table.remove(key)?;
    batch_process(rx, next_action, table)?;""", """    table.remove(key).ok();
    batch_process(rx, next_action, table)?;""", 'C18.g')
m('C13-m5', 'C13', W + 'lib.rs', """            tx.send(worterbuch.get(&key)).ok();""", """            let _ = (tx, worterbuch.get(&key));""", 'C13.i')
m('C14-m4', 'C14', 'worterbuch-client/src/tcp.rs', """            error!("Error sending TCP message: {e}");
            break;""", """            error!("Error sending TCP message: {e}");""", 'C14.e')
m('C20-m3', 'C20', 'worterbuch-client/src/lib.rs', """        let cmd = Command::CSet(key, value, version, tx);
        debug!("Queuing command {cmd:?}");
        self.commands.send(cmd).await?;
        debug!("Command queued.");
        rx.await??;""", """        let cmd = Command::CSet(key, value, version, tx);
        debug!("Queuing command {cmd:?}");
        self.commands.send(cmd).await?;
        debug!("Command queued.");
        rx.await?.ok();""", 'C20.g')
