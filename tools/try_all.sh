#!/bin/bash
# usage: tools/try_all.sh <patch.diff> [Cxx ...]  applies the patch to a scratch copy of /repo (outside /repo and /verif), runs the
# quick checks (all, or the listed ones) against that copy in parallel, prints the violations, removes the copy.  Development tool.
set -u
patch=$1; shift
props=${*:-C01 C02 C03 C04 C05 C06 C07 C08 C09 C10 C11 C12 C13 C14 C15 C16 C17 C18 C19 C20}
work=/var/tmp/wbtry.$$
mkdir -p $work/src $work/ev
rsync -a --exclude target --exclude .git /repo/ $work/src/
if ! (cd $work/src && patch -p1 -s --no-backup-if-mismatch -i "$patch" > $work/patch.log 2>&1); then echo "PATCH DOES NOT APPLY: $(head -3 $work/patch.log)"; rm -rf $work; exit 4; fi
cd /verif
export WBVERIF_REPO=$work/src WBVERIF_EVIDENCE=$work/ev
python3 -m wbcheck.facts $work/src > /dev/null 2>$work/extract.err || { echo "EXTRACTION FAILED"; grep -E "^error" -A6 $work/extract.err | head -12; rm -rf $work; exit 5; }
printf '%s\n' $props | xargs -P 8 -I{} sh -c "./check {} > $work/{}.log 2>&1"
for p in $props; do
  if grep -q -E "VIOLATION|ERROR" $work/$p.log; then grep -E "^  C|ERROR" $work/$p.log | cut -c1-330; fi
done
rm -rf $work
