"""C14 — every protocol message survives encoding and decoding unchanged (structural clauses)."""
from ..ir import callee, short, walk, ctor_name, AnchorMissing
from ..prov import Bindings
from ..trace import Tracer
from ..serde_rules import Shapes, lint, attr
from .common import *

NOT_DECIDED = ('round trip of every concrete value: that rests on the trusted base (serde derive and serde_json implement their '
               'documented data model) plus the shape and build-configuration clauses; messages written by other '
               'implementations of the protocol')

WIRE_ROOTS = ['ClientMessage', 'ServerMessage', 'LeaderSyncMessage', 'PeerMessage']


def rule_a(prog, rep):
    rep.rule('C14.a', 'T8', 'shape lint over the closure of ClientMessage, ServerMessage, LeaderSyncMessage and the orchestrator\'s '
             'PeerMessage: externally tagged enums with distinct variant names; no untagged variant whose payload can encode '
             'like a tagged sibling; every #[serde(flatten)] field has a finite key set disjoint from its siblings; '
             'skip_serializing_if only on Option / with default; skipped fields have defaults; no 128-bit integers; '
             'rename_all symmetric')
    sh = Shapes(prog.serde, prefer_dirs=('worterbuch-common/', 'worterbuch/'))
    roots = []
    for r in WIRE_ROOTS:
        t = sh.get(r)
        if t is None:
            rep.violation('C14.a', r, '', 'root message type not found', key=f'C14.a/{r}/anchor-missing')
        else:
            roots.append(r)
    types = {}
    for r in roots:
        t = sh.get(r)
        types.update(sh.closure([r], near=t['file']))
    n = lint(sh, types, rep, 'C14.a', 'wire')
    rep.analysed['wire_types'] = sorted(types)
    flat = sum(1 for t in types.values() if t['kind'] == 'struct' for f in t['fields'] if attr(f['attrs'], 'flatten'))
    unt = sum(1 for t in types.values() if t['kind'] == 'enum' for v in t['variants'] if attr(v['attrs'], 'untagged'))
    rep.floor('C14.a', n, 40, 'wire types')
    rep.floor('C14.a', flat, 3, 'flatten sites')
    rep.floor('C14.a', unt, 1, 'untagged variants')
    # every variant payload of the three message enums is a serde type (derive present on both sides)
    for r in roots:
        t = sh.get(r)
        d = set(t.get('derives', []))
        if {'Serialize', 'Deserialize'} <= d:
            rep.ok('C14.a', f'{r}:derives', f"{t['file']}:{t['line']}", 'Serialize + Deserialize derived from one definition')
        else:
            rep.violation('C14.a', f'{r}:derives', f"{t['file']}:{t['line']}", f'derives {sorted(d)}', key=f'C14.a/{r}/derives')


def rule_b(prog, rep):
    rep.rule('C14.b', 'T8', 'build configuration: the resolved serde_json feature set (cargo metadata, after feature unification '
             'across the workspace) contains float_roundtrip (otherwise about 30% of finite f64 change on decode) and does not '
             'contain arbitrary_precision (breaks flatten / untagged numbers); every workspace crate that encodes messages '
             'depends on that one serde_json')
    nodes = [n for n in prog.metadata['nodes'] if n['name'] == 'serde_json']
    if not nodes:
        raise AnchorMissing('serde_json in cargo metadata')
    for nd in nodes:
        fs = set(nd['features'])
        inst = f"serde_json {nd['version']}"
        if 'float_roundtrip' in fs:
            rep.ok('C14.b', f'{inst}:float_roundtrip', 'Cargo.toml', f'features {sorted(fs)}')
        else:
            rep.violation('C14.b', f'{inst}:float_roundtrip', 'Cargo.toml', f'resolved features {sorted(fs)} lack float_roundtrip: '
                          'f64 values are parsed inexactly', key='C14.b/serde_json/float_roundtrip-missing')
        if 'arbitrary_precision' in fs:
            rep.violation('C14.b', f'{inst}:arbitrary_precision', 'Cargo.toml', 'arbitrary_precision is enabled', key='C14.b/serde_json/arbitrary_precision')
        else:
            rep.ok('C14.b', f'{inst}:arbitrary_precision', 'Cargo.toml', 'not enabled')
    members = [n for n in prog.metadata['nodes'] if n['member']]
    users = [m['name'] for m in members if 'serde_json' in m['deps']]
    if len(nodes) == 1 and len(users) >= 4:
        rep.ok('C14.b', 'single-serde_json', 'Cargo.lock', f'one serde_json instance shared by {sorted(users)}')
    else:
        rep.violation('C14.b', 'single-serde_json', 'Cargo.lock', f'{len(nodes)} serde_json instances; users {sorted(users)}',
                      key='C14.b/serde_json/instances')


PRETTY = ('to_string_pretty', 'to_writer_pretty', 'to_vec_pretty')


def rule_c(prog, rep):
    rep.rule('C14.c', 'T1', 'single line: every socket writer sends serde_json::to_string(msg) + one newline (write_line_and_flush '
             'refuses text containing a line break); no pretty printer is called anywhere in the server, client, common or '
             'orchestrator libraries; readers split on lines')
    n = 0
    for cname in (WB, COMMON, CLIENT, ORCH):
        crate = prog.crate(cname)
        for f in crate.top_fns():
            for nd, anc in crate.walk_fn(f):
                if nd.get('k') == 'call' and short(callee(nd)) in PRETTY:
                    rep.violation('C14.c', f'{cname}::{f.path}', loc(f, nd), f'calls {short(callee(nd))}: multi-line JSON',
                                  key=f'C14.c/{cname}/{f.path}/pretty')
                if nd.get('k') == 'call' and short(callee(nd)) in ('to_string', 'to_vec', 'to_writer') and 'serde_json' in callee(nd):
                    n += 1
    rep.ok('C14.c', 'no-pretty-printer', '', f'{n} serde_json serialisation sites in 4 crates, none pretty')
    rep.floor('C14.c', n, 10, 'serialisation sites')
    common = prog.crate(COMMON)
    w = common.fn('server::write_line_and_flush')
    b = Bindings(common, w)
    ser = [nd for nd, a in common.walk_fn(w) if nd.get('k') == 'call' and short(callee(nd)) == 'to_string' and 'serde_json' in callee(nd)]
    pushes = [nd for nd, a in common.walk_fn(w) if nd.get('k') == 'call' and short(callee(nd)) == 'push' and
              nd['args'][1].get('k') == 'lit' and nd['args'][1]['v'].get('v') == '\n']
    guard = [nd for nd, a in common.walk_fn(w) if nd.get('k') == 'if' and any(x.get('k') == 'call' and short(callee(x)) == 'contains' and
             any(y.get('k') == 'lit' and y['v'].get('v') == '\n' for y in x['args']) for x, _ in walk(nd['cond'])) and
             any(x.get('k') == 'return' for x, _ in walk(nd['then']))]
    if len(ser) == 1 and len(pushes) == 1 and guard and b.origins(ser[0]['args'][0]) == {'param(msg)'}:
        rep.ok('C14.c', 'write_line_and_flush', w.loc, 'to_string(msg), refuse embedded line breaks, append exactly one newline')
    else:
        rep.violation('C14.c', 'write_line_and_flush', w.loc, f'serialisations={len(ser)}, newline pushes={len(pushes)}, '
                      f'line-break guard={bool(guard)}', key='C14.c/write_line_and_flush')
    # who writes to sockets: tcp / unix / leader use write_line_and_flush
    crate = prog.crate(WB)
    for name in ('server::tcp::forward_messages_to_socket', 'server::unix::forward_messages_to_socket'):
        f = crate.fn(name)
        cs = [nd for nd, a in crate.calls(f, lambda c: c.endswith('write_line_and_flush'))]
        raw = [nd for nd, a in crate.calls(f, lambda c: short(c) in ('write', 'write_all') and 'AsyncWriteExt' in c)]
        if len(cs) == 1 and not raw:
            rep.ok('C14.c', name, f.loc, 'socket writes only through write_line_and_flush')
        else:
            rep.violation('C14.c', name, f.loc, f'{len(cs)} write_line_and_flush calls, {len(raw)} raw writes', key=f'C14.c/{name}')
    lf = [f for f in crate.top_fns() if f.path.startswith('leader_follower::leader::')]
    raw = [(f, nd) for f in lf for nd, a in crate.calls(f, lambda c: short(c) in ('write', 'write_all') and 'AsyncWriteExt' in c)]
    wl = [(f, nd) for f in lf for nd, a in crate.calls(f, lambda c: c.endswith('write_line_and_flush'))]
    if wl and not raw:
        rep.ok('C14.c', 'leader:sync-writer', wl[0][0].loc, f'{len(wl)} sync writes, all through write_line_and_flush')
    else:
        rep.violation('C14.c', 'leader:sync-writer', '', f'{len(wl)} line writes, {len(raw)} raw writes', key='C14.c/leader')
    # readers use line framing
    readers = 0
    for name in ('server::tcp::serve_loop', 'server::unix::serve_loop', 'leader_follower::follower::run_in_follower_mode'):
        try:
            f = crate.fn(name)
        except AnchorMissing:
            continue
        if any(short(callee(nd)) == 'lines' for nd, a in crate.calls(f)):
            readers += 1
            rep.ok('C14.c', f'{name}:reader', f.loc, 'reads with lines()')
    rep.floor('C14.c', readers, 2, 'line readers')


def rule_d(prog, rep):
    rep.rule('C14.d', 'T2', 'complete lines: wherever a partial-write primitive (AsyncWriteExt::write) is used, its result is '
             'accumulated with `+=` into the counter that (i) bounds the enclosing loop (`counter < buf.len()`) and (ii) is the '
             'start of the slice handed to the next write (`&buf[counter..]`); otherwise a short write truncates, repeats or '
             'never terminates a line')
    n = 0
    for cname in (WB, COMMON, CLIENT, ORCH):
        crate = prog.crate(cname)
        for f in crate.top_fns():
            b = None
            for nd, anc in crate.walk_fn(f):
                if nd.get('k') != 'call' or not callee(nd).endswith('AsyncWriteExt::write'):
                    continue
                n += 1
                b = b or Bindings(crate, f)
                problems = []
                # (ii) slice start
                buf = b.deref_local(nd['args'][1])
                while isinstance(buf, dict) and buf.get('k') == 'ref':
                    buf = b.deref_local(buf['e'])
                ctr = None
                if buf.get('k') == 'index' and buf['i'].get('k') == 'struct' and (buf['i'].get('path') or '').endswith('RangeFrom'):
                    st = buf['i']['fields'][0]['e']
                    if st.get('k') == 'path' and st.get('res') == 'local':
                        ctr = st
                if ctr is None:
                    problems.append('the data is not a slice `&buf[counter..]`')
                # accumulation
                acc = None
                for a in reversed(anc):
                    if a.get('k') in ('assign', 'assignop'):
                        acc = a
                        break
                    # `written += match timeout { Some(t) => ..write(..).., None => ..write(..).. }`: the write is the value of an arm
                    if a.get('k') in ('let', 'loop', 'closure', 'for'):
                        break
                    if a.get('k') == 'block' and a.get('stmts'):
                        break
                if acc is None or acc.get('k') != 'assignop' or acc.get('op') not in ('Add', 'AddAssign'):
                    problems.append('the number of bytes written is not accumulated with `+=`' +
                                    (f' (found `{acc.get("k")}`)' if acc else ''))
                elif ctr is not None and acc['l'].get('id') != ctr.get('id'):
                    problems.append('accumulated into a different variable than the slice start')
                # (i) loop bound
                loops = [a for a in anc if a.get('k') == 'loop']
                bound = False
                if loops and ctr is not None:
                    for x, _ in walk(loops[-1]['body']):
                        if x.get('k') == 'binary' and x.get('op') == 'Lt' and x['l'].get('id') == ctr.get('id') and \
                                x['r'].get('k') == 'call' and short(callee(x['r'])) == 'len':
                            bound = True
                if not bound:
                    problems.append('no enclosing `while counter < buf.len()` loop')
                inst = f'{cname}::{f.path}'
                if problems:
                    rep.violation('C14.d', inst, loc(f, nd), '; '.join(problems), key=f'C14.d/{inst}/' + '|'.join(p.split('(')[0].strip() for p in problems))
                else:
                    rep.ok('C14.d', inst, loc(f, nd), 'written += write(&buf[written..]) under while written < buf.len()')
    rep.floor('C14.d', n, 2, 'partial-write call sites')


def rule_e(prog, rep):
    rep.rule('C14.e', 'T3', 'a failed line write ends the stream: write_line_and_flush writes a message in chunks and can fail (time '
             'out) with part of the line on the wire; every writer loop therefore leaves the loop (break / return / `?`) on the '
             'Err edge of write_line_and_flush - writing the next message after a failed one would glue it onto the fragment and '
             'the peer would read one undecodable line')
    n = 0
    for cname in (WB, CLIENT):
        crate = prog.crate(cname)
        for f in crate.top_fns():
            bodies = [f] + crate.closures_of(f)
            sites = [(nd, anc, b_) for b_ in bodies for nd, anc in walk(b_.hir)
                     if nd.get('k') == 'call' and short(callee(nd)) == 'write_line_and_flush']
            for nd, anc, body_owner in sites:
                loops = [a for a in anc if isinstance(a, dict) and a.get('k') in ('loop', 'for')]
                n += 1
                inst = f'{cname}::{short(f.path)}'
                if not loops:
                    rep.ok('C14.e', f'{inst}:single-write', loc(f, nd), 'a single write outside any loop (the function ends with it)')
                    continue

                def classify(x, a_, nd=nd):
                    return 'w' if x is nd else None
                tr = Tracer(crate, classify, closure_mode=lambda c_, cl: 'inline')
                tr.env = {}
                bp = tr.expr(loops[-1]['body'])
                again = [t for (ex, t, v) in bp if 'w@Err' in t and (ex == 'fall' or ex.startswith('continue'))]
                seen_err = any('w@Err' in t for (ex, t, v) in bp)
                tried = any(isinstance(a, dict) and a.get('k') == 'try' for a in anc[-3:])
                if again:
                    rep.violation('C14.e', f'{inst}:loop', loc(f, nd), 'the writer loop goes on to the next message after a failed write: '
                                  'a partly written line is followed by the next message', key=f'C14.e/{inst}/continues-after-error')
                elif seen_err or tried:
                    rep.ok('C14.e', f'{inst}:loop', loc(f, nd), 'the Err edge leaves the writer loop')
                else:
                    rep.violation('C14.e', f'{inst}:loop', loc(f, nd), 'unrecognised-shape: the result of write_line_and_flush is not examined',
                                  key=f'C14.e/{inst}/unrecognised-shape')
    rep.floor('C14.e', n, 6, 'write_line_and_flush call sites')


RULES = [('C14.e', rule_e), ('C14.d', rule_d), ('C14.a', rule_a), ('C14.b', rule_b), ('C14.c', rule_c)]
