"""C20 — the client library pairs answers with calls and sends what it was given (structural clauses)."""
import re
from ..ir import callee, short, walk, ctor_name, pat_variants, guards, AnchorMissing
from ..prov import Bindings
from .common import *
from . import c13

NOT_DECIDED = ('pairing under real concurrency beyond the id discipline; the delay / coalescing timing of the send buffer; '
               'equality of typed results with what the server holds (serde, see C14)')

# request kind (Command without the Async suffix) -> callback map(s) a synchronous command must register in
ANSWER_MAP = {'Ack': 'ack', 'State': 'state', 'CState': 'cstate', 'PState': 'pstate', 'LsState': 'lsstate'}
KIND_TO_HANDLER = {k: v for k, v in c13.DISPATCH.items()}
STREAM_MAP = {'Subscribe': 'sub', 'PSubscribe': 'psub', 'SubscribeLs': 'subls'}
CALLER_ID = {'SPub': 'continues the publish stream opened by SPubInit: the id is the stream id',
             'Unsubscribe': 'names the subscription to end', 'UnsubscribeLs': 'names the ls-subscription to end'}


def _command_match(crate):
    f = crate.fn('process_incoming_command')
    ms = [nd for nd, a in crate.walk_fn(f) if nd.get('k') == 'match' and str(nd.get('scrut_ty')).endswith('Command')]
    if len(ms) != 1:
        raise AnchorMissing(f'match over Command in process_incoming_command ({len(ms)})')
    return f, ms[0]


def _arm_facts(crate, f, b, arm):
    ins, rem, msgs = [], [], []
    for nd, anc in walk(arm['body']):
        if nd.get('k') == 'call' and short(callee(nd)) in ('insert', 'remove', 'push') and nd['args']:
            a0 = nd['args'][0]
            while a0.get('k') == 'ref':
                a0 = a0['e']
            if a0.get('k') == 'field' and 'Callbacks' in str(a0.get('base_ty')):
                if short(callee(nd)) == 'insert':
                    ins.append((a0['name'], b.origins(nd['args'][1]), nd))
                elif short(callee(nd)) == 'remove':
                    rem.append((a0['name'], b.origins(nd['args'][1]), nd))
        if nd.get('k') == 'call' and callee(nd) in getattr(crate, 'fns', {}) and callee(nd) != f.path:
            # a private helper that edits the callback tables (e.g. `forget_subscription(callbacks, id)`): its effects count,
            # with the helper's parameters replaced by the arguments of this call
            g = crate.fns[callee(nd)]
            if getattr(g, 'hir', None) is not None and g.kind != 'Closure':
                gb = Bindings(crate, g)
                pn = [p_.get('name') if isinstance(p_, dict) and p_.get('k') == 'bind' else None for p_ in g.params]

                def through(o_set, site=nd, pn=pn):
                    out_ = set()
                    for x in o_set:
                        m_ = re.match(r'param\((\w+)\)(.*)$', x)
                        if m_ and m_.group(1) in pn and pn.index(m_.group(1)) < len(site['args']):
                            out_ |= {y + m_.group(2) for y in b.origins(site['args'][pn.index(m_.group(1))])}
                        else:
                            out_.add(x)
                    return out_
                for nd2, anc2 in crate.walk_fn(g):
                    if nd2.get('k') == 'call' and short(callee(nd2)) in ('insert', 'remove') and nd2['args']:
                        a0 = nd2['args'][0]
                        while a0.get('k') == 'ref':
                            a0 = a0['e']
                        if a0.get('k') == 'field' and 'Callbacks' in str(a0.get('base_ty')):
                            (ins if short(callee(nd2)) == 'insert' else rem).append((a0['name'], through(gb.origins(nd2['args'][1])), nd2))
        cn = ctor_name(nd)
        if cn and 'ClientMessage::' in cn and nd.get('k') == 'call':
            payload = b.deref_local(nd['args'][0]) if nd['args'] else None
            fields = {}
            if isinstance(payload, dict) and payload.get('k') == 'struct':
                fields = {x['name']: b.origins(x['e']) for x in payload['fields']}
            msgs.append((short(cn), fields, nd))
    return ins, rem, msgs


def rule_a(prog, rep):
    rep.rule('C20.a', 'T4+T6', 'command table: in process_incoming_command every Command::X and its XAsync sibling build exactly one '
             'ClientMessage, the same-named variant X; every field of the message other than the transaction id derives from '
             'the same-named position of the command')
    crate = prog.crate(CLIENT)
    f, m = _command_match(crate)
    b = Bindings(crate, f)
    variants = enum_variants(crate, 'Command')
    seen = {}
    for arm in m['arms']:
        for v in pat_variants(arm['pat']):
            seen[short(v)] = arm
    n = 0
    for v in variants:
        if v == 'AllMessages':
            continue
        n += 1
        arm = seen.get(v)
        if arm is None:
            rep.violation('C20.a', f'Command::{v}', f.loc, 'no arm', key=f'C20.a/{v}/missing')
            continue
        kind = v[:-5] if v.endswith('Async') else v
        ins, rem, msgs = _arm_facts(crate, f, b, arm)
        if len(msgs) != 1 or msgs[0][0] != kind:
            rep.violation('C20.a', f'Command::{v}', f'{f.file}:{arm.get("ln")}', f'builds {[x[0] for x in msgs]}',
                          key=f'C20.a/{v}/message', expected=f'ClientMessage::{kind}')
            continue
        bad = []
        for fld, o in msgs[0][1].items():
            if fld == 'transaction_id':
                continue
            if not all(x.startswith(f'param(cmd)#Some.0#{v}') or x.startswith(f'param(cmd)#Some#{v}') or x.startswith('lit(') or
                       x.startswith('const(') for x in o):
                bad.append(f'{fld} <- {sorted(o)}')
        if bad:
            rep.violation('C20.a', f'Command::{v}', loc(f, msgs[0][2]), '; '.join(bad), key=f'C20.a/{v}/fields')
        else:
            rep.ok('C20.a', f'Command::{v}', loc(f, msgs[0][2]), f'-> ClientMessage::{kind}, fields from the command')
    rep.floor('C20.a', n, 35, 'command arms')
    # sibling agreement on field sets
    for v in variants:
        if v.endswith('Async') and v[:-5] in seen and v in seen:
            _, _, m1 = _arm_facts(crate, f, b, seen[v])
            _, _, m2 = _arm_facts(crate, f, b, seen[v[:-5]])
            if m1 and m2 and set(m1[0][1]) != set(m2[0][1]):
                rep.violation('C20.a', f'{v}~{v[:-5]}', f.loc, 'sibling commands fill different message fields', key=f'C20.a/{v}/sibling')


def _expected_maps(kind):
    """callback maps a synchronous command of this kind must register in"""
    if kind in STREAM_MAP:
        return {STREAM_MAP[kind], 'ack'}
    h = c13.DISPATCH.get(kind)
    if h is None:
        return None
    ans = c13.ANSWER[h][0]
    return {ANSWER_MAP[ans]}


def rule_b(prog, rep):
    rep.rule('C20.b', 'T6', 'callback kind matches the server\'s answer kind (cross-crate): the one-shot map a synchronous command '
             'registers in (ack/state/cstate/pstate/lsstate) is the map of the ServerMessage variant the server answers that '
             'request kind with (table of C13.b); subscriptions additionally register their stream callback; Async commands '
             'register nothing and hand the id back')
    crate = prog.crate(CLIENT)
    f, m = _command_match(crate)
    b = Bindings(crate, f)
    n = 0
    for arm in m['arms']:
        for v in pat_variants(arm['pat']):
            sv = short(v)
            if sv == 'AllMessages':
                continue
            kind = sv[:-5] if sv.endswith('Async') else sv
            ins, rem, msgs = _arm_facts(crate, f, b, arm)
            got = {x[0] for x in ins}
            n += 1
            if sv.endswith('Async'):
                sends = [nd for nd, a in walk(arm['body']) if nd.get('k') == 'call' and short(callee(nd)) == 'send' and 'oneshot' in callee(nd)]
                if got or len(sends) != 1:
                    rep.violation('C20.b', f'Command::{sv}', f'{f.file}:{arm.get("ln")}', f'registers {sorted(got)}, {len(sends)} ticket sends',
                                  key=f'C20.b/{sv}/async', expected='no callback, id handed back once')
                else:
                    rep.ok('C20.b', f'Command::{sv}', f'{f.file}:{arm.get("ln")}', 'fire-and-forget: id handed back, nothing registered')
                continue
            want = _expected_maps(kind)
            if want is None:
                rep.violation('C20.b', f'Command::{sv}', f'{f.file}:{arm.get("ln")}', 'request kind unknown to the server table',
                              key=f'C20.b/{sv}/unknown')
            elif got == want:
                rep.ok('C20.b', f'Command::{sv}', f'{f.file}:{arm.get("ln")}', f'registers in {sorted(got)} = answer kind of the server')
            else:
                rep.violation('C20.b', f'Command::{sv}', f'{f.file}:{arm.get("ln")}', f'registers in {sorted(got)}',
                              key=f'C20.b/{sv}/map', expected=str(sorted(want)))
    rep.floor('C20.b', n, 35, 'command arms')


def rule_c(prog, rep):
    rep.rule('C20.c', 'T4', 'delivery table: process_incoming_server_message maps each ServerMessage variant to its deliver_* '
             'function; deliver_x removes the one-shot from the matching map by the answer\'s own transaction id and sends the '
             'answer into it; stream callbacks are looked up (not removed) by that id; deliver_err removes from all five maps')
    crate = prog.crate(CLIENT)
    f = crate.fn('process_incoming_server_message')
    ms = [nd for nd, a in crate.walk_fn(f) if nd.get('k') == 'match' and str(nd.get('scrut_ty')).endswith('ServerMessage')]
    if len(ms) != 1:
        raise AnchorMissing('match over ServerMessage in process_incoming_server_message')
    table = {'State': 'deliver_state', 'CState': 'deliver_cstate', 'PState': 'deliver_pstate', 'LsState': 'deliver_ls',
             'Err': 'deliver_err', 'Ack': 'deliver_ack'}
    for arm in ms[0]['arms']:
        for v in pat_variants(arm['pat']):
            sv = short(v)
            if v == '_':
                rep.violation('C20.c', 'dispatch:catch-all', f'{f.file}:{arm.get("ln")}', 'catch-all hides answer kinds', key='C20.c/catch-all')
                continue
            cs = {short(callee(nd)) for nd, a in walk(arm['body']) if nd.get('k') == 'call' and short(callee(nd)).startswith('deliver_')}
            if sv in table:
                if cs == {table[sv]}:
                    rep.ok('C20.c', f'dispatch:{sv}', f'{f.file}:{arm.get("ln")}', f'-> {table[sv]}')
                else:
                    rep.violation('C20.c', f'dispatch:{sv}', f'{f.file}:{arm.get("ln")}', f'-> {sorted(cs)}', key=f'C20.c/dispatch/{sv}',
                                  expected=table[sv])
            elif cs:
                rep.violation('C20.c', f'dispatch:{sv}', f'{f.file}:{arm.get("ln")}', f'-> {sorted(cs)}', key=f'C20.c/dispatch/{sv}')
    deliver = {'deliver_state': ({'state'}, {'sub'}, 'state'), 'deliver_cstate': ({'cstate'}, set(), 'state'),
               'deliver_pstate': ({'pstate'}, {'psub'}, 'pstate'), 'deliver_ls': ({'lsstate'}, {'subls'}, 'ls'),
               'deliver_ack': ({'ack'}, set(), 'ack'), 'deliver_err': ({'ack', 'state', 'cstate', 'pstate', 'lsstate'}, set(), 'err')}
    for name, (rm_want, get_want, param) in deliver.items():
        d = crate.fn(name)
        b = Bindings(crate, d)
        rm, gt = set(), set()
        keys_ok = True
        for nd, anc in crate.walk_fn(d):
            if nd.get('k') == 'call' and short(callee(nd)) in ('remove', 'get', 'get_mut') and nd['args']:
                a0 = nd['args'][0]
                while a0.get('k') == 'ref':
                    a0 = a0['e']
                if a0.get('k') == 'field' and 'Callbacks' in str(a0.get('base_ty')):
                    (rm if short(callee(nd)) == 'remove' else gt).add(a0['name'])
                    if b.origins(nd['args'][1]) != {f'param({param}).transaction_id'}:
                        keys_ok = False
        if rm == rm_want and gt == get_want and keys_ok:
            rep.ok('C20.c', name, d.loc, f'removes {sorted(rm)} / looks up {sorted(gt)} by {param}.transaction_id')
        else:
            rep.violation('C20.c', name, d.loc, f'removes {sorted(rm)}, looks up {sorted(gt)}, keyed-by-answer-id={keys_ok}',
                          key=f'C20.c/{name}', expected=f'remove {sorted(rm_want)}, get {sorted(get_want)}')


def rule_d(prog, rep):
    rep.rule('C20.d', 'T1/T7', 'fresh ids: one-shot callbacks are keyed by the id drawn from TransactionIds::next() for this '
             'command, which is also the id of the message sent; TransactionIds::next increments by one')
    crate = prog.crate(CLIENT)
    f, m = _command_match(crate)
    b = Bindings(crate, f)
    n = 0
    for arm in m['arms']:
        for v in pat_variants(arm['pat']):
            sv = short(v)
            ins, rem, msgs = _arm_facts(crate, f, b, arm)
            for mp, key_o, nd in ins:
                n += 1
                fresh = all('TransactionIds::next' in x for x in key_o)
                mid = msgs[0][1].get('transaction_id') if msgs else None
                same = (mid == key_o)
                if fresh and same:
                    rep.ok('C20.d', f'Command::{sv}:{mp}', loc(f, nd), 'keyed by the fresh id that is sent')
                elif not fresh and sv in CALLER_ID and same and mp == 'ack':
                    rep.violation('C20.d', f'Command::{sv}:{mp}', loc(f, nd), f'one-shot keyed by the caller-supplied id ({CALLER_ID[sv]}): '
                                  'two calls in flight for one id overwrite each other\'s callback', key=f'C20.d/{sv}/caller-supplied-id')
                else:
                    rep.violation('C20.d', f'Command::{sv}:{mp}', loc(f, nd), f'callback key <- {sorted(key_o)}, message id <- {sorted(mid or [])}',
                                  key=f'C20.d/{sv}/{mp}/key')
    rep.floor('C20.d', n, 20, 'callback registrations')
    nx = crate.fn('TransactionIds::next')
    txt = str(nx.hir)
    incs = [nd for nd, a in crate.walk_fn(nx) if (nd.get('k') == 'assignop' and nd.get('op') in ('Add', 'AddAssign')) or
            (nd.get('k') == 'call' and short(callee(nd)) in ('wrapping_add', 'fetch_add', 'checked_add', 'saturating_add'))]
    if len(incs) == 1 and any(x.get('k') == 'lit' and x['v'].get('v') == 1 for x, _ in walk(incs[0])):
        rep.ok('C20.d', 'TransactionIds::next', nx.loc, 'increments by one')
    else:
        rep.violation('C20.d', 'TransactionIds::next', nx.loc, 'does not advance by exactly one', key='C20.d/next')


def rule_e(prog, rep):
    rep.rule('C20.e', 'T6', 'send-buffer field pairing: the buffer a buffer_<x>_messages task fills is the buffer the <x>_value task it '
             'spawns drains, the drained value goes to do_<x>_value, which sends Command::<X>; the spawn happens only when the '
             'key was not buffered yet, the value buffered is the latest one')
    crate = prog.crate(CLIENT)
    for kind, cmd in (('set', 'Set'), ('publish', 'Publish')):
        fill = crate.fn(f'buffer::SendBuffer::buffer_{kind}_messages')
        drain = crate.fn(f'buffer::SendBuffer::{kind}_value')
        send = crate.fn(f'buffer::SendBuffer::do_{kind}_value')

        def buf_fields(fn_, method):
            out = []
            fb_ = Bindings(crate, fn_)
            for nd, anc in crate.walk_fn(fn_):
                if nd.get('k') == 'call' and short(callee(nd)) == method and ('HashMap' in callee(nd)):
                    found = [x['name'] for x, _ in walk(nd['args'][0]) if x.get('k') == 'field' and 'SendBuffer' in str(x.get('base_ty'))]
                    if not found:
                        # the map is reached through a parameter of a helper: follow the provenance to the field of SendBuffer
                        for x, _ in walk(nd['args'][0]):
                            if x.get('k') == 'path' and x.get('res') == 'local':
                                for o in fb_.origins(x):
                                    m_ = re.search(r'param\(self\)\.(\w+_buffer)', o)
                                    if m_:
                                        found.append(m_.group(1))
                    out += sorted(set(found))
            return out
        fb, db = buf_fields(fill, 'insert'), buf_fields(drain, 'remove')
        spawned = [short(callee(x)) for nd, anc in crate.walk_fn(fill) if nd.get('k') == 'call' and short(callee(nd)) == 'spawn'
                   for x, _ in walk(nd) if x.get('k') == 'call' and 'SendBuffer::' in callee(x) and short(callee(x)) != 'clone']
        calls_do = [short(callee(nd)) for nd, a in crate.walk_fn(drain) if nd.get('k') == 'call' and 'SendBuffer::do_' in callee(nd)]
        cmds = [short(ctor_name(nd)) for nd, a in crate.walk_fn(send) if ctor_name(nd) and 'Command::' in ctor_name(nd)]
        problems = []
        if fb != [f'{kind}_buffer']:
            problems.append(f'buffer_{kind}_messages fills {fb}')
        if db != [f'{kind}_buffer']:
            problems.append(f'{kind}_value drains {db}')
        if spawned != [f'{kind}_value']:
            problems.append(f'buffer_{kind}_messages spawns {spawned}')
        if calls_do != [f'do_{kind}_value']:
            problems.append(f'{kind}_value calls {calls_do}')
        if cmds != [cmd]:
            problems.append(f'do_{kind}_value sends {cmds}')
        # spawn only if the key was not buffered (previous.is_none())
        b = Bindings(crate, fill)
        sp = [(nd, anc) for nd, anc in crate.walk_fn(fill) if nd.get('k') == 'call' and short(callee(nd)) == 'spawn']
        if sp:
            from ..ir import inline_predicate
            g = [('if', inline_predicate(crate, it[1]), it[2]) for it in guards(sp[0][1] + (sp[0][0],)) if it[0] == 'if' and it[2] is True]
            if not any(it[1].get('k') == 'call' and short(callee(it[1])) == 'is_none' and any('insert' in x for x in b.origins(it[1]['args'][0])) for it in g):
                problems.append('the sender task is not spawned exactly when the key was not buffered before')
        db_ = Bindings(crate, drain)
        dc = [nd for nd, a in crate.walk_fn(drain) if nd.get('k') == 'call' and 'SendBuffer::do_' in callee(nd)]
        if dc and not any('remove' in x for x in db_.origins(dc[0]['args'][2])):
            problems.append('the value sent is not the one removed from the buffer')
        if problems:
            rep.violation('C20.e', f'buffer:{kind}', fill.loc, '; '.join(problems), key=f'C20.e/{kind}/' + '|'.join(problems))
        else:
            rep.ok('C20.e', f'buffer:{kind}', fill.loc, f'{kind}_buffer filled -> {kind}_value drains it -> do_{kind}_value -> Command::{cmd}')
    # set_later / publish_later feed the matching channel
    sb = crate.fn('buffer::SendBuffer::new')
    txt = [(short(callee(x)), nd) for nd, a in crate.walk_fn(sb) if nd.get('k') == 'call' and short(callee(nd)) == 'spawn'
           for x, _ in walk(nd) if x.get('k') == 'call' and 'SendBuffer::buffer_' in callee(x)]
    b = Bindings(crate, sb)
    b.sites = True   # two channel() calls: origins must tell the call sites apart
    for kind in ('set', 'publish'):
        later = crate.fn(f'buffer::SendBuffer::{kind}_later')
        fl = [x['name'] for nd, a in crate.walk_fn(later) if nd.get('k') == 'call' and is_mpsc_send(callee(nd))
              for x, _ in walk(nd['args'][0]) if x.get('k') == 'field']
        if fl and fl[0] == f'{kind}_tx':
            rep.ok('C20.e', f'{kind}_later', later.loc, f'sends into {kind}_tx')
        else:
            rep.violation('C20.e', f'{kind}_later', later.loc, f'sends into {fl}', key=f'C20.e/{kind}_later')
    # SendBuffer::new wires <x>_tx's receiver to buffer_<x>_messages
    st = [nd for nd, a in crate.walk_fn(sb) if nd.get('k') == 'struct' and (nd.get('path') or '').endswith('SendBuffer')]
    ok_w = False
    if st:
        fields = {x['name']: b.origins(x['e']) for x in st[0]['fields']}
        pairs = {}
        for nm, nd in txt:
            args = [x for x, _ in walk(nd) if x.get('k') == 'call' and 'SendBuffer::buffer_' in callee(x)][0]['args']
            pairs[nm] = b.origins(args[1])
        ok_w = all(k in pairs for k in ('buffer_set_messages', 'buffer_publish_messages'))
        if ok_w:
            def chan(o):
                return {x.rsplit('[', 1)[0] for x in o}
            ok_w = chan(fields.get('set_tx', set())) == chan(pairs['buffer_set_messages']) and \
                chan(fields.get('publish_tx', set())) == chan(pairs['buffer_publish_messages']) and \
                chan(fields.get('set_tx', set())) != chan(fields.get('publish_tx', set()))
    if ok_w:
        rep.ok('C20.e', 'SendBuffer::new', sb.loc, 'set_tx <-> buffer_set_messages, publish_tx <-> buffer_publish_messages (distinct channels)')
    else:
        rep.violation('C20.e', 'SendBuffer::new', sb.loc, 'the two channels are not wired to their own buffer tasks', key='C20.e/new/wiring')


def rule_f(prog, rep):
    rep.rule('C20.f', 'T3', 'unsubscribe drops local routing: Unsubscribe / UnsubscribeAsync remove the sub and psub entry of the id, '
             'UnsubscribeLs / UnsubscribeLsAsync the subls entry, keyed by the id given by the caller')
    crate = prog.crate(CLIENT)
    f, m = _command_match(crate)
    b = Bindings(crate, f)
    want = {'Unsubscribe': {'sub', 'psub'}, 'UnsubscribeAsync': {'sub', 'psub'}, 'UnsubscribeLs': {'subls'}, 'UnsubscribeLsAsync': {'subls'}}
    for arm in m['arms']:
        for v in pat_variants(arm['pat']):
            sv = short(v)
            if sv not in want:
                continue
            ins, rem, msgs = _arm_facts(crate, f, b, arm)
            got = {x[0] for x in rem}
            keyed = all(any(f'#{sv}.0' in y for y in x[1]) for x in rem)
            mid = msgs[0][1].get('transaction_id') if msgs else set()
            same = all(x[1] == mid for x in rem)
            if got == want[sv] and keyed and same:
                rep.ok('C20.f', f'Command::{sv}', f'{f.file}:{arm.get("ln")}', f'removes {sorted(got)} for the id it unsubscribes')
            else:
                rep.violation('C20.f', f'Command::{sv}', f'{f.file}:{arm.get("ln")}', f'removes {sorted(got)} (keyed by the command id: {keyed})',
                              key=f'C20.f/{sv}', expected=str(sorted(want[sv])))


def rule_g(prog, rep):
    rep.rule('C20.g', 'T3', "a call reports the server's verdict: in the request methods of the client (impl Worterbuch) the answer "
             "received over the oneshot channel is a nested Result (channel error outside, the server's Ok / Err inside); after the "
             "first `?` the inner Result must be examined again (`?`, `match`, returned) - dropping it (`.ok()`, a bare statement) "
             'makes a refused set / cset / delete / lock look successful to the caller')
    crate = prog.crate(CLIENT)
    n = 0
    for f in crate.top_fns():
        if not f.path.startswith('Worterbuch::'):
            continue
        for b_ in [f] + crate.closures_of(f):
            for nd, anc in walk(b_.hir):
                if nd.get('k') != 'try' or not str(nd.get('operand_ty') or '').startswith('std::result::Result<std::result::Result<'):
                    continue
                if nd.get('x'):
                    continue
                n += 1
                chain = [x for x in anc if isinstance(x, dict)]
                par = chain[-1] if chain else {}
                ok_ = par.get('k') in ('try', 'return') or (par.get('k') == 'match' and par.get('scrut') is nd) or \
                    (par.get('k') == 'let' and par.get('init') is nd and par['pat'].get('k') == 'bind') or \
                    (par.get('k') == 'block' and par.get('tail') is nd) or \
                    (par.get('k') == 'call' and (ctor_name(par) or '').endswith(('Ok', 'Some')))
                if par.get('k') == 'let' and ok_:
                    # the bound inner Result must be used afterwards
                    bid = par['pat'].get('id')
                    ok_ = any(x.get('k') == 'path' and x.get('id') == bid for x, _ in walk(b_.hir))
                inst = f'{short(f.path)}'
                if ok_:
                    rep.ok('C20.g', inst, loc(f, nd), "the server's verdict is examined after the channel result")
                else:
                    how = short(callee(par)) if par.get('k') == 'call' else (par.get('k') or 'statement')
                    rep.violation('C20.g', inst, loc(f, nd), f"the server's Ok / Err is dropped (`{how}`): a refused request looks successful",
                                  key=f'C20.g/{inst}/dropped/{how}')
    rep.floor('C20.g', n, 15, 'answers with a nested Result')


NOT_CANCEL_SAFE = ('read_line', 'read_until', 'read_exact', 'read_to_end', 'read_to_string', 'read_u8', 'read_u16', 'read_u32', 'read_u64',
                   'write_all', 'write_all_buf', 'copy', 'copy_buf')


def rule_h(prog, rep):
    rep.rule('C20.h', 'call graph + T1', "the receive branch of the client's run loop is cancel safe: receive_msg is one branch of a "
             'tokio::select! next to the command queue, so its future is dropped whenever a command arrives first; everything it '
             'awaits must keep a partly read line across such a drop (Lines::next_line, a stream\'s next()) - read_line / '
             'read_until / read_exact into a buffer owned by the future lose the bytes already consumed, the rest of the line '
             'then fails to decode and every call in flight resolves with an error instead of its answer')
    from ..callgraph import CallGraph
    cg = CallGraph(prog, [CLIENT, COMMON])
    crate = prog.crate(CLIENT)
    # entry points: calls of ..::receive_msg made from inside a select! expansion of the client
    entries = set()
    for f in crate.top_fns():
        for b_ in [f] + crate.closures_of(f):
            for nd, anc in walk(b_.hir):
                if nd.get('k') == 'call' and short(callee(nd)) == 'receive_msg':
                    in_select = any('select' in m for a in list(anc) + [nd] if isinstance(a, dict) for m in (a.get('x') or []))
                    futs = any(isinstance(a, dict) and a.get('k') == 'let' and a['pat'].get('name') == 'futures_init' for a in anc)
                    if in_select or futs:
                        t = cg.resolve(CLIENT, callee(nd))
                        if t:
                            entries.add(t)
    if not entries:
        raise AnchorMissing('a receive_msg call inside a select! of the client')
    seen = cg.reachable(sorted(entries))
    n = 0
    for name in sorted(seen):
        cn, f = cg.fns[name]
        c2 = cg.crates[cn]
        for b_ in [f] + c2.closures_of(f):
            for nd, anc in walk(b_.hir):
                if nd.get('k') != 'call':
                    continue
                sh = short(callee(nd))
                if ('AsyncBufReadExt' in callee(nd) or 'AsyncReadExt' in callee(nd) or 'AsyncWriteExt' in callee(nd) or 'tokio::io' in callee(nd)) and sh in NOT_CANCEL_SAFE:
                    rep.violation('C20.h', f'{short(name)}:{sh}', loc(f, nd), f'{callee(nd)} is awaited inside the select! receive branch (via '
                                  f'{" -> ".join(cg.path_to(seen, name)[-3:])}): not cancel safe', key=f'C20.h/{short(name)}/{sh}')
                elif sh in ('next_line', 'next', 'recv', 'try_next'):
                    n += 1
    if n:
        rep.ok('C20.h', 'receive-branch', '', f'{len(seen)} functions reachable from the receive branch; {n} awaits, all on cancel-safe primitives (next_line / next / recv)')
    rep.floor('C20.h', n, 3, 'cancel-safe read primitives reachable from the receive branch')


RULES = [('C20.h', rule_h), ('C20.g', rule_g), ('C20.a', rule_a), ('C20.b', rule_b), ('C20.c', rule_c), ('C20.d', rule_d), ('C20.e', rule_e), ('C20.f', rule_f)]
