"""./check <Cxx> [--tier quick|thorough] [--explain file] [--root DIR]"""
import importlib
import json
import os
import sys
import traceback

from . import facts
from .ir import Program, AnchorMissing
from .report import Report, finish
from .trace import TooComplex


def run_property(prop, tier, root=None, quiet=False):
    rep = Report(prop, tier)
    try:
        d = facts.ensure_facts(root)
    except facts.ExtractionError as e:
        print(f'ERROR: fact extraction failed, nothing was analysed: {e}', file=sys.stderr)
        return None, rep
    prog = Program(d)
    rep.analysed = prog.stats()
    mod = importlib.import_module(f'wbcheck.rules.{prop.lower()}')
    rep.not_decided = getattr(mod, 'NOT_DECIDED', '')
    for name, fn in mod.RULES:
        try:
            fn(prog, rep)
        except AnchorMissing as e:
            rep.anchor_missing(name, e)
        except TooComplex as e:
            rep.anchor_missing(name, f'unrecognised-shape: {e}')
        except (KeyError, IndexError, TypeError, AttributeError, NameError, ValueError) as e:
            # the code left the shape a rule was written for in a way the rule did not anticipate: fail closed, with the location
            tb = traceback.extract_tb(e.__traceback__)[-1]
            rep.anchor_missing(name, f'unrecognised-shape: {type(e).__name__}: {e} ({os.path.basename(tb.filename)}:{tb.lineno})')
    return prog, rep


def main(argv):
    if not argv:
        print(__doc__)
        return 2
    prop = argv[0].upper()
    tier = os.environ.get('VERIF_TIER', 'quick')
    root = None
    i = 1
    while i < len(argv):
        if argv[i] == '--tier':
            tier = argv[i + 1]
            i += 2
        elif argv[i] == '--root':
            root = argv[i + 1]
            i += 2
        elif argv[i] in ('--explain', '--replay'):
            print(json.dumps(json.load(open(argv[i + 1])), indent=1))
            return 0
        else:
            i += 1
    seed = int(os.environ.get('VERIF_SEED', '0') or 0)
    prog, rep = run_property(prop, tier, root)
    if prog is None:
        return 2
    if tier == 'thorough':
        from . import selftest
        selftest.run(prop, rep)
    return finish(rep, seed)


if __name__ == '__main__':
    try:
        sys.exit(main(sys.argv[1:]))
    except Exception:
        traceback.print_exc()
        sys.exit(2)
