"""C03 — a subscription delivers current state, then every matching change once, in order (structural clauses)."""
from ..ir import callee, short, walk, ctor_name, pat_variants, guards, strip_not, conjuncts, AnchorMissing
from ..trace import Tracer, ok_exits, err_exits, base
from ..prov import Bindings
from .common import *
from .corefx import core_paths, mutation_effective
from . import c13

NOT_DECIDED = ('exactly-once / in-order delivery over all histories; the fold-equals-pget clause; ordering across the socket '
               'writer; behaviour under back-pressure; which keys a pattern matches (C04)')


def rule_a(prog, rep):
    rep.rule('C03.a', 'T3', 'notify after every mutation: in Worterbuch::{set,cset,delete} every Ok path on which the store '
             'mutation took effect calls notify_subscribers exactly once after it; in internal_pdelete and import the call '
             'sits in the loop over the mutator\'s result and every iteration reaches it; publish notifies unconditionally')
    crate = prog.crate(WB)
    n = 0
    for fname in ('set', 'cset', 'delete'):
        f, paths = core_paths(prog, fname)
        bad = None
        cnt = 0
        for (ex, t, v) in ok_exits(paths):
            i = mutation_effective(t)
            if i < 0:
                continue
            cnt += 1
            c = [x for x in t[i + 1:] if base(x) == 'notify']
            if len(c) != 1 or c[0].endswith('*'):
                bad = t
        n += 1
        if bad is not None:
            rep.violation('C03.a', f'Worterbuch::{fname}', f.loc, f'Ok path after an effective mutation with '
                          f'{sum(1 for x in bad if base(x) == "notify")} notify_subscribers calls: trace={list(bad)}',
                          key=f'C03.a/{fname}/notify-count', expected='exactly one notify_subscribers after the mutation')
        elif cnt == 0:
            rep.violation('C03.a', f'Worterbuch::{fname}', f.loc, 'no Ok path with an effective mutation found (anchor)',
                          key=f'C03.a/{fname}/anchor')
        else:
            rep.ok('C03.a', f'Worterbuch::{fname}', f.loc, f'{cnt} Ok paths with a mutation, each notifies once')
    for fname, mut in (('internal_pdelete', 'delete_matches'), ('import', 'merge')):
        f, paths = core_paths(prog, fname)
        b = Bindings(crate, f)
        n += 1
        # the loop
        # (found through the ancestors of the call, so that a call moved into a new helper of the loop body still counts)
        loops = []
        for nd_, anc_ in crate.walk_fn(f):
            if nd_.get('k') == 'call' and callee(nd_) == f'{CORE}::notify_subscribers':
                for a_ in anc_:
                    if isinstance(a_, dict) and a_.get('k') == 'for' and not any(a_ is l_ for l_ in loops):
                        loops.append(a_)
        if len(loops) != 1:
            rep.violation('C03.a', f'Worterbuch::{fname}', f.loc, f'{len(loops)} loops containing notify_subscribers',
                          key=f'C03.a/{fname}/loop', expected='one loop over the mutator result')
            continue
        o = b.origins(loops[0]['iter'])
        if not any(f'call({STORE}::{mut})' in x for x in o):
            rep.violation('C03.a', f'Worterbuch::{fname}', loc(f, loops[0]), f'notification loop iterates over {sorted(o)}',
                          key=f'C03.a/{fname}/loop-source', expected=f'the result of Store::{mut}')
            continue
        # every completed iteration notifies exactly once
        from .corefx import classify_core, fallibility
        fall = fallibility(prog)
        tr = Tracer(crate, classify_core(fall), value_of_call=fall.value_of)
        tr.env = {}
        body_paths = tr.expr(loops[0]['body'])
        bad = [t for (ex, t, v) in body_paths if ex.split(':')[0] in ('fall', 'continue') and sum(1 for x in t if base(x) == 'notify') != 1]
        if bad:
            rep.violation('C03.a', f'Worterbuch::{fname}', loc(f, loops[0]), f'an iteration completes with '
                          f'{sum(1 for x in bad[0] if base(x) == "notify")} notifications: {list(bad[0])}',
                          key=f'C03.a/{fname}/iteration')
        else:
            rep.ok('C03.a', f'Worterbuch::{fname}', loc(f, loops[0]), 'loop over the mutator result; every completed iteration notifies once')
    f, paths = core_paths(prog, 'publish')
    n += 1
    bad = [t for (ex, t, v) in ok_exits(paths) if sum(1 for x in t if x == 'notify') != 1]
    if bad or not ok_exits(paths):
        rep.violation('C03.a', 'Worterbuch::publish', f.loc, f'Ok path without exactly one notification: {bad[:1]}',
                      key='C03.a/publish/notify-count')
    else:
        rep.ok('C03.a', 'Worterbuch::publish', f.loc, 'every Ok path notifies once')
    rep.floor('C03.a', n, 6, 'notifying core functions')


FLAGS = {  # function -> (value_changed origin predicate, deleted literal)
    'set': (lambda o: o == {f'call({STORE}::insert_plain)[0]'}, False),
    'cset': (lambda o: o == {f'call({STORE}::insert_cas)[0]'}, False),
    'publish': (lambda o: o == {'lit(True)'}, False),
    'delete': (lambda o: o == {'lit(True)'}, True),
    'internal_pdelete': (lambda o: o == {'lit(True)'}, True),
    'import': (lambda o: len(o) == 1 and next(iter(o)).startswith(f'call({STORE}::merge)') and next(iter(o)).endswith('[1][1]'), False),
}


def rule_b(prog, rep):
    rep.rule('C03.b', 'T7', 'notify flags: (value_changed, deleted) operands of each notify_subscribers call: set/cset -> '
             '(component 0 of the insert result, false); publish -> (true,false); delete/pdelete -> (true,true); import -> '
             '(the per-key changed flag of the merge result, false); key/path/value operands derive from the request or the '
             'mutator result')
    crate = prog.crate(WB)
    for fname, (pred, deleted) in FLAGS.items():
        f = crate.fn(f'{CORE}::{fname}')
        b = Bindings(crate, f)
        calls = crate.calls(f, lambda c: c == f'{CORE}::notify_subscribers')
        if len(calls) != 1:
            rep.violation('C03.b', f'Worterbuch::{fname}', f.loc, f'{len(calls)} notify_subscribers call sites',
                          key=f'C03.b/{fname}/sites', expected='1')
            continue
        a = calls[0][0]['args']
        vc, dl = b.origins(a[4]), b.origins(a[5])
        if pred(vc) and dl == {f'lit({deleted})'}:
            rep.ok('C03.b', f'Worterbuch::{fname}', loc(f, calls[0][0]), f'value_changed <- {sorted(vc)}, deleted <- {sorted(dl)}')
        else:
            rep.violation('C03.b', f'Worterbuch::{fname}', loc(f, calls[0][0]),
                          f'value_changed <- {sorted(vc)}, deleted <- {sorted(dl)}', key=f'C03.b/{fname}/flags',
                          expected=f'deleted={deleted}')
        # key / value operands
        ko, vo = b.origins(a[2]), b.origins(a[3])
        want_key = {'set': 'param(key)', 'cset': 'param(key)', 'publish': 'param(key)', 'delete': 'param(key)'}.get(fname)
        if want_key:
            good = ko == {want_key}
        else:
            good = all(x.startswith('call(') for x in ko)
        if fname in ('set', 'cset', 'publish'):
            good = good and vo == {'param(value)'}
        elif fname == 'delete':
            good = good and vo == {f'call({STORE}::delete)#Some.0[0]'}
        if good:
            rep.ok('C03.b', f'Worterbuch::{fname}:operands', loc(f, calls[0][0]), f'key <- {sorted(ko)}, value <- {sorted(vo)}')
        else:
            rep.violation('C03.b', f'Worterbuch::{fname}:operands', loc(f, calls[0][0]), f'key <- {sorted(ko)}, value <- {sorted(vo)}',
                          key=f'C03.b/{fname}/operands')


def _bool_eval(e, env):
    k = e.get('k')
    if k == 'binary' and e.get('op') in ('Or', 'And'):
        l, r = _bool_eval(e['l'], env), _bool_eval(e['r'], env)
        return (l or r) if e['op'] == 'Or' else (l and r)
    if k == 'unary' and e.get('op') == 'Not':
        return not _bool_eval(e['e'], env)
    if k == 'path' and e.get('res') == 'local' and e.get('name') in env:
        return env[e['name']]
    if k == 'call' and short(callee(e)) in env:
        return env[short(callee(e))]
    if k == 'block' and not e['stmts'] and 'tail' in e:
        return _bool_eval(e['tail'], env)
    if k in ('ref',) or (k == 'unary' and e.get('op') == 'Deref'):
        return _bool_eval(e['e'], env)
    raise ValueError('unrecognised-shape: ' + str(k))


def rule_c(prog, rep):
    rep.rule('C03.c', 'T5', 'unique filter: the predicate that selects the subscribers to call in notify_subscribers, '
             'evaluated over (value_changed, unique), is value_changed || !unique (4 rows)')
    crate = prog.crate(WB)
    f = crate.fn(f'{CORE}::notify_subscribers')
    filt = [nd for nd, a in crate.walk_fn(f) if nd.get('k') == 'call' and short(callee(nd)) == 'filter']
    if len(filt) != 1:
        raise AnchorMissing(f'subscriber filter in notify_subscribers ({len(filt)})')
    clo = [a for a in filt[0]['args'] if a.get('k') == 'closure']
    body = crate.closure(clo[0]['def']).hir if clo else None
    if body is None:
        raise AnchorMissing('filter closure body')
    for vc in (False, True):
        for u in (False, True):
            row = f'value_changed={vc},unique={u}'
            try:
                got = _bool_eval(body, {'value_changed': vc, 'is_unique': u})
            except ValueError as e:
                rep.violation('C03.c', row, loc(f, filt[0]), str(e), key='C03.c/unrecognised-shape')
                return
            want = vc or not u
            if got == want:
                rep.ok('C03.c', row, loc(f, filt[0]), f'-> notify={got}')
            else:
                rep.violation('C03.c', row, loc(f, filt[0]), f'filter({row}) = {got}', key=f'C03.c/{row}', expected=str(want))
    # the filtered list is what the loop iterates
    b = Bindings(crate, f)
    loops = [nd for nd, a in crate.walk_fn(f) if nd.get('k') == 'for']
    if len(loops) == 1 and any('get_subscribers' in x for x in b.origins(loops[0]['iter'])):
        rep.ok('C03.c', 'loop-source', loc(f, loops[0]), 'iterates the filtered result of get_subscribers(path)')
    else:
        rep.violation('C03.c', 'loop-source', f.loc, 'the notification loop does not iterate the filtered get_subscribers result',
                      key='C03.c/loop-source')


def rule_d(prog, rep):
    rep.rule('C03.d', 'T4', 'event kind: in notify_subscribers a pstate subscriber gets send_pstate, others send_state; '
             '`deleted` selects PStateEvent::Deleted / StateEvent::Deleted, otherwise KeyValuePairs / Value; the payload is '
             'the (key, value) of the call')
    crate = prog.crate(WB)
    f = crate.fn(f'{CORE}::notify_subscribers')
    b = Bindings(crate, f)
    want = {(True, True): ('send_pstate', 'PStateEvent::Deleted'), (True, False): ('send_pstate', 'PStateEvent::KeyValuePairs'),
            (False, True): ('send_state', 'StateEvent::Deleted'), (False, False): ('send_state', 'StateEvent::Value')}
    seen = {}
    for nd, anc in crate.walk_fn(f):
        if nd.get('k') == 'call' and short(callee(nd)) in ('send_pstate', 'send_state') and 'Subscriber' in callee(nd):
            g = guards(anc + (nd,))
            ps = dl = None
            for it in g:
                if it[0] != 'if':
                    continue
                c, pol = strip_not(it[1])
                if c.get('k') == 'call' and short(callee(c)) == 'is_pstate_subscriber':
                    ps = (it[2] == pol)
                if c.get('k') == 'path' and b.origins(c) == {'param(deleted)'}:
                    dl = (it[2] == pol)
            arg = b.deref_local(nd['args'][1])
            if isinstance(arg, dict) and arg.get('k') == 'if' and 'else' in arg and dl is None:
                # `let event = if deleted { Deleted(..) } else { KeyValuePairs(..) }; send(event)`: the value carries the split
                c, pol = strip_not(arg['cond'])
                if c.get('k') == 'path' and b.origins(c) == {'param(deleted)'}:
                    for branch, val in ((True, arg['then']), (False, arg['else'])):
                        v_ = val
                        while isinstance(v_, dict) and v_.get('k') == 'block' and 'tail' in v_:
                            v_ = v_['tail']
                        seen[(ps, branch == pol)] = (short(callee(nd)), ctor_name(b.deref_local(v_)) or '?', nd)
                    continue
            ev = ctor_name(arg) or '?'
            seen[(ps, dl)] = (short(callee(nd)), ev, nd)
    for key, (m, ev) in want.items():
        row = f'pstate={key[0]},deleted={key[1]}'
        if key not in seen:
            rep.violation('C03.d', row, f.loc, 'no send under this combination of guards', key=f'C03.d/{row}/missing')
            continue
        gm, gev, nd = seen[key]
        if gm == m and gev.endswith(ev):
            rep.ok('C03.d', row, loc(f, nd), f'-> {gm}({short(gev)})')
        else:
            rep.violation('C03.d', row, loc(f, nd), f'-> {gm}({gev})', key=f'C03.d/{row}', expected=f'{m}({ev})')
    extra = [k for k in seen if k not in want]
    if extra:
        rep.violation('C03.d', 'unguarded-send', f.loc, f'send outside the (pstate, deleted) case split: {extra}', key='C03.d/unguarded')
    # Subscriber::send_* deliver into the sender the subscriber was created with
    for m, var in (('send_pstate', 'PState'), ('send_state', 'State')):
        sf = crate.fn(f'subscribers::Subscriber::{m}')
        sb = Bindings(crate, sf)
        sends = crate.calls(sf, is_mpsc_send)
        good = len(sends) == 1 and sb.origins(sends[0][0]['args'][1]) == {'param(event)'} and \
            any(f'#{var}' in x and 'param(self).tx' in x for x in sb.origins(sends[0][0]['args'][0]))
        if good:
            rep.ok('C03.d', f'Subscriber::{m}', sf.loc, f'sends its event into self.tx (EventSender::{var})')
        else:
            rep.violation('C03.d', f'Subscriber::{m}', sf.loc, 'does not send exactly its event into its own sender',
                          key=f'C03.d/Subscriber::{m}')


def rule_e(prog, rep):
    rep.rule('C03.e', 'T2/T7', 'snapshot: in Worterbuch::{subscribe,psubscribe} the current state is sent only under '
             '!live_only, into the same channel whose sender is registered in the Subscriber, after add_subscriber and before '
             'the function returns; the snapshot is what get/pget of the requested key/pattern returns')
    crate = prog.crate(WB)
    for fname, evc, src, param in (('subscribe', 'StateEvent::Value', f'{CORE}::get', 'key'),
                                   ('psubscribe', 'PStateEvent::KeyValuePairs', f'{CORE}::pget', 'pattern')):
        f = crate.fn(f'{CORE}::{fname}')
        b = Bindings(crate, f)
        sends = [(nd, anc) for nd, anc in crate.walk_fn(f) if nd.get('k') == 'call' and is_mpsc_send(callee(nd))]
        regs = [nd for nd, anc in crate.walk_fn(f) if ctor_name(nd) and 'EventSender::' in (ctor_name(nd) or '')]
        if len(sends) != 1 or len(regs) != 1:
            rep.violation('C03.e', f'Worterbuch::{fname}', f.loc, f'{len(sends)} snapshot sends, {len(regs)} EventSender constructions',
                          key=f'C03.e/{fname}/sites', expected='1 and 1')
            continue
        nd, anc = sends[0]
        g = guards(anc + (nd,))
        live = [it for it in g if it[0] == 'if' and strip_not(it[1])[0].get('k') == 'path' and
                b.origins(strip_not(it[1])[0]) == {'param(live_only)'}]
        cond_ok = len(live) == 1 and (live[0][2] != strip_not(live[0][1])[1]) and \
            b.origins(strip_not(live[0][1])[0]) == {'param(live_only)'}
        same = b.origins(nd['args'][0]) == b.origins(regs[0]['args'][0]) and \
            all('channel' in x for x in b.origins(nd['args'][0]))
        payload = b.deref_local(nd['args'][1])
        pc = ctor_name(payload) or ''
        po = b.origins(payload['args'][0]) if payload.get('k') == 'call' and payload['args'] else set()
        src_ok = pc.endswith(evc) and any(f'call({src})' in x for x in po)
        srccalls = crate.calls(f, lambda c: c == src)
        arg_ok = len(srccalls) >= 1 and all(b.origins(c[0]['args'][1]) == {f'param({param})'} for c in srccalls)
        # order: add_subscriber before the snapshot, on every path

        def classify(n_, a_):
            if n_.get('k') != 'call':
                return None
            c = callee(n_)
            if c.endswith('Subscribers::add_subscriber'):
                return 'register'
            if is_mpsc_send(c):
                return 'snapshot'
            return None
        paths = Tracer(crate, classify).run_fn(f)
        order_ok = all(('register' in t) and (t.index('register') < t.index('snapshot')) for (ex, t, v) in paths if 'snapshot' in t) \
            and all('register' in t for (ex, t, v) in ok_exits(paths))
        if cond_ok and same and src_ok and arg_ok and order_ok:
            rep.ok('C03.e', f'Worterbuch::{fname}', loc(f, nd), 'snapshot under !live_only, into the registered channel, after registration')
        else:
            rep.violation('C03.e', f'Worterbuch::{fname}', loc(f, nd),
                          f'guard(!live_only)={cond_ok}, same-channel={same}, payload-from-{short(src)}={src_ok}, '
                          f'query-operand={arg_ok}, registered-before-snapshot={order_ok}', key=f'C03.e/{fname}/snapshot')
        # the Subscriber gets the parsed pattern of the request and the unique flag
        subs = crate.calls(f, lambda c: c.endswith('Subscriber::new'))
        if len(subs) == 1:
            uo = b.origins(subs[0][0]['args'][3])
            if uo == {'param(unique)'}:
                rep.ok('C03.e', f'Worterbuch::{fname}:unique', loc(f, subs[0][0]), 'Subscriber.unique <- request flag')
            else:
                rep.violation('C03.e', f'Worterbuch::{fname}:unique', loc(f, subs[0][0]), f'unique <- {sorted(uo)}',
                              key=f'C03.e/{fname}/unique')


def rule_f(prog, rep):
    rep.rule('C03.f', 'T3', 'unsubscribe / disconnect: do_unsubscribe reaches Subscribers::unsubscribe with the registered '
             'pattern on every path on which the subscription id was registered; disconnected calls do_unsubscribe for every '
             'subscription id of the client; the subscriber registry only ever removes the one subscriber (its tree nodes '
             'are never removed, so other subscriptions stay reachable)')
    crate = prog.crate(WB)
    f = crate.fn(f'{CORE}::do_unsubscribe')

    def classify(n_, a_):
        if n_.get('k') != 'call':
            return None
        c = callee(n_)
        if short(c) == 'remove' and n_['args'] and n_['args'][0].get('k') in ('field', 'ref') and \
                'subscriptions' in str(n_['args'][0])[:300] and 'HashMap' in c:
            return 'reg.remove'
        if c.endswith('Subscribers::unsubscribe'):
            return 'unsub'
        return None
    paths = Tracer(crate, classify).run_fn(f)
    some = [t for (ex, t, v) in paths if 'reg.remove@Some' in t]
    if not some:
        raise AnchorMissing('do_unsubscribe: subscriptions.remove(..) @Some edge')
    bad = [t for t in some if 'unsub' not in t]
    if bad:
        rep.violation('C03.f', 'do_unsubscribe', f.loc, f'registered subscription removed without Subscribers::unsubscribe: {list(bad[0])}',
                      key='C03.f/do_unsubscribe/unsub')
    else:
        b = Bindings(crate, f)
        c = crate.calls(f, lambda x: x.endswith('Subscribers::unsubscribe'))[0][0]
        po, so = b.origins(c['args'][1]), b.origins(c['args'][2])
        if any('remove' in x for x in po) and so == {'param(subscription)'}:
            rep.ok('C03.f', 'do_unsubscribe', loc(f, c), f'{len(some)} registered paths all reach Subscribers::unsubscribe(registered pattern, id)')
        else:
            rep.violation('C03.f', 'do_unsubscribe', loc(f, c), f'unsubscribe operands: pattern <- {sorted(po)}, id <- {sorted(so)}',
                          key='C03.f/do_unsubscribe/operands')
    # disconnected
    d = crate.fn(f'{CORE}::disconnected')
    b = Bindings(crate, d)
    calls = [(nd, anc) for nd, anc in crate.walk_fn(d) if nd.get('k') == 'call' and callee(nd) == f'{CORE}::do_unsubscribe']
    good = False
    if len(calls) == 1:
        nd, anc = calls[0]
        fors = [a for a in anc if a.get('k') == 'for']
        if fors:
            o = b.origins(fors[-1]['iter'])
            good = any('param(self).subscriptions' in x for x in o) and b.origins(nd['args'][2]) == {'param(client_id)'}
            # the filter keeps exactly the client's subscriptions
            key_let = b.deref_local(fors[-1]['iter'])
            filt = [x for x, _ in walk(key_let) if x.get('k') == 'call' and short(callee(x)) == 'filter'] if isinstance(key_let, dict) else []
            fok = False
            for fl in filt:
                for a in fl['args']:
                    if a.get('k') == 'closure':
                        body = crate.closure(a['def']).hir
                        for x, _ in walk(body):
                            if x.get('k') == 'binary' and x.get('op') == 'Eq' and 'client_id' in str(x['l'])[:400] and 'client_id' in str(x['r'])[:400]:
                                fok = True
            good = good and fok
    if good:
        rep.ok('C03.f', 'disconnected', loc(d, calls[0][0]), 'do_unsubscribe for every subscription id with k.client_id == client_id')
    else:
        rep.violation('C03.f', 'disconnected', d.loc, 'disconnected does not unsubscribe every subscription of the client',
                      key='C03.f/disconnected/loop')
    # registry mutations
    registry_mutations(prog, rep, 'C03.f', 'subscribers::', 'HashMap<worterbuch_common::KeySegment, subscribers::Node', 'Vec<subscribers::Subscriber',
                       3, 'registry mutation sites (1 entry + 2 retain)')



def _guarded_prune(nd, anc):
    """the removal executes only under `<node>.tree.is_empty()` and `<node>.(ls_)subscribers.is_empty()`"""
    names = set()
    for it in guards(anc + (nd,)):
        if it[0] != 'if' or it[2] is not True:
            continue
        for c in conjuncts(it[1]):
            c, pol = strip_not(c)
            if pol and c.get('k') == 'call' and short(callee(c)) == 'is_empty' and c['args']:
                a = c['args'][0]
                while a.get('k') in ('ref',):
                    a = a['e']
                if a.get('k') == 'field':
                    names.add(a['name'])
    return 'tree' in names and bool(names & {'subscribers', 'ls_subscribers'})


def _callers_guarded(crate, fn_):
    """a private helper that prunes: every call site of it sits under the neither-subscribers-nor-children condition"""
    sites = [(nd, anc) for g in crate.top_fns() for nd, anc in crate.walk_fn(g) if nd.get('k') == 'call' and callee(nd) == fn_.path]
    return bool(sites) and all(_guarded_prune(nd, anc) for nd, anc in sites)


def registry_mutations(prog, rep, rid, fn_prefix, tree_ty, vec_ty, floor, floor_text):
    """A subscriber registry (a trie of nodes, each with a list of subscribers) is only ever extended node-wise; a subscriber
    leaves by id (Vec::retain(|s| s.id != ..)).  Removing a trie node would make the subscriptions below it unreachable."""
    crate = prog.crate(WB)
    n = 0
    for fn_ in crate.top_fns():
        if not fn_.path.startswith(fn_prefix):
            continue
        fb = None
        for nd, anc in crate.walk_fn(fn_):
            if nd.get('k') == 'assign' and nd['l'].get('k') == 'field' and nd['l']['name'] == 'tree' and \
                    tree_ty.split('<')[-1].split(',')[-1].strip() in str(nd['l'].get('base_ty')):
                n += 1
                rep.violation(rid, f'{fn_.path}:tree=', loc(fn_, nd), 'replaces the tree of a registry node wholesale',
                              key=f'{rid}/{fn_.path}/tree.assign')
                continue
            if nd.get('k') != 'call':
                continue
            rt = str(nd.get('recv_ty') or '')
            m = short(callee(nd))
            if tree_ty in rt and m in ('remove', 'clear', 'retain', 'drain', 'remove_entry', 'extract_if', 'insert', 'entry', 'take'):
                n += 1
                if m in ('entry', 'insert'):
                    rep.ok(rid, f'{fn_.path}:tree.{m}', loc(fn_, nd), 'tree nodes are only added')
                elif m in ('remove', 'remove_entry') and (_guarded_prune(nd, anc) or _callers_guarded(crate, fn_)):
                    rep.ok(rid, f'{fn_.path}:tree.{m}', loc(fn_, nd), 'a node is pruned only when it has neither subscribers nor children')
                else:
                    rep.violation(rid, f'{fn_.path}:tree.{m}', loc(fn_, nd), 'removes nodes of the subscription tree: '
                                  'subscriptions registered below such a node become unreachable',
                                  key=f'{rid}/{fn_.path}/tree.{m}', expected='remove only the subscriber (Vec::retain by id)')
            if vec_ty in rt and not rt.startswith(('std::vec::Vec<(', '&')) and \
                    m in ('retain', 'clear', 'drain', 'remove', 'truncate', 'pop', 'swap_remove'):
                n += 1
                okp = False
                if m == 'retain':
                    for a in nd['args']:
                        if a.get('k') == 'closure':
                            body = crate.closure(a['def'])
                            for x, _ in walk(body.hir):
                                if x.get('k') == 'binary' and x.get('op') == 'Ne' and ('id' in str(x['l'])[:300] or 'id' in str(x['r'])[:300]):
                                    okp = True
                if okp:
                    rep.ok(rid, f'{fn_.path}:subscribers.retain', loc(fn_, nd), 'removes by subscription id only')
                else:
                    rep.violation(rid, f'{fn_.path}:subscribers.{m}', loc(fn_, nd), 'removes subscribers other than by id',
                                  key=f'{rid}/{fn_.path}/subscribers.{m}')
    rep.floor(rid, n, floor, floor_text)

def rule_g(prog, rep):
    c13.rule_g(prog, rep, rid='C03.g')
    # the forwarders contain no spawn (FIFO) and are the only code that turns the receiver into messages
    crate = prog.crate(WB)
    for name in ('server::common::protocol::v0::forward_loop', 'server::common::protocol::v0::aggregate_loop'):
        f = crate.fn(name)
        sp = [nd for nd, a in crate.walk_fn(f) if nd.get('k') == 'call' and is_spawn(callee(nd))]
        if sp:
            rep.violation('C03.g', f'{short(name)}:spawn', loc(f, sp[0]), 'forwarder spawns tasks: event order is no longer FIFO',
                          key=f'C03.g/{short(name)}/spawn')
        else:
            rep.ok('C03.g', f'{short(name)}:fifo', f.loc, 'no spawn inside the forwarder')


def rule_h(prog, rep):
    rep.rule('C03.h', 'T2', 'an aggregated pattern subscription loses and reorders nothing per key: the aggregator flushes its '
             'buffers before it would overwrite a buffered event of the same key or mix sets and deletes (= C16.a), and a flush '
             'drains both insertion-ordered buffers into events of their own kind (= C16.b)')
    from . import c16
    px = Proxy(rep, 'C03.h')
    c16.rule_a(prog, px)
    c16.rule_b(prog, px)


def rule_i(prog, rep):
    rep.rule('C03.i', 'T3+T7', "an unsubscribe / session end can only stop what was recorded: every registered subscriber is recorded in the table unsubscribe works from (= C07.e)")
    from . import c07
    c07.rule_e(prog, Proxy(rep, 'C03.i'))


def rule_j(prog, rep):
    rep.rule('C03.j', 'T7', "the subscription the client asked for is the one that is made: V0::subscribe / psubscribe call the core with "
             "the session's client id, the request's transaction id, key / pattern and `unique` flag, and live_only = "
             "msg.live_only.unwrap_or(false) (a request that does not mention liveOnly gets the snapshot)")
    crate = prog.crate(WB)
    for hname, api, keyfield in (('subscribe', 'subscribe', 'key'), ('psubscribe', 'psubscribe', 'request_pattern')):
        f = crate.fn(f'{V0}::{hname}')
        b = Bindings(crate, f)
        calls = [nd for nd, a in crate.walk_fn(f) if nd.get('k') == 'call' and short(callee(nd)) == api and
                 ('WbApi' in callee(nd) or 'CloneableWbApi' in callee(nd) or 'WbApi' in str(nd.get('impl') or ''))]
        problems = []
        if len(calls) != 1:
            problems.append(f'{len(calls)} core calls')
        else:
            a = calls[0]['args']
            want = [{'param(self).client_id'}, {'param(msg).transaction_id'}, {f'param(msg).{keyfield}'}, {'param(msg).unique'}]
            for i_, w in enumerate(want):
                if b.origins(a[1 + i_]) != w:
                    problems.append(f'operand {i_} <- {sorted(b.origins(a[1 + i_]))}, expected {sorted(w)}')
            lo = b.origins(a[5])
            if lo != {'param(msg).live_only', 'lit(False)(default)'}:
                problems.append(f'live_only <- {sorted(lo)}, expected msg.live_only with default false')
        if problems:
            rep.violation('C03.j', f'V0::{hname}', f.loc, '; '.join(problems), key=f'C03.j/{hname}/' + '|'.join(p_.split(' <-')[0] for p_ in problems))
        else:
            rep.ok('C03.j', f'V0::{hname}', loc(f, calls[0]), f'(client id, msg.transaction_id, msg.{keyfield}, msg.unique, msg.live_only.unwrap_or(false))')


RULES = [('C03.j', rule_j), ('C03.h', rule_h), ('C03.i', rule_i), ('C03.a', rule_a), ('C03.b', rule_b), ('C03.c', rule_c), ('C03.d', rule_d), ('C03.e', rule_e), ('C03.f', rule_f),
         ('C03.g', rule_g)]
