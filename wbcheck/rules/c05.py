"""C05 — child listings and ls-subscriptions show exactly the keys that exist (structural clauses)."""
import re
from ..ir import callee, short, walk, ctor_name, guards, strip_not, conjuncts, AnchorMissing
from ..trace import Tracer, ok_exits, base
from ..prov import Bindings
from .common import *
from .corefx import core_paths, mutation_effective

NOT_DECIDED = ('equality of the last received list with ls at every quiescent point for all histories; which subscribers a '
               'store mutation selects (that is the traversal logic inside Store::insert / ndelete*)')


def rule_a(prog, rep):
    rep.rule('C05.a', 'T3', 'ls notifications are forwarded: in Worterbuch::{set,cset,delete,internal_pdelete} the ls-subscriber '
             'component of the store result is tested on every Ok path after an effective mutation, and its Some edge reaches '
             'notify_ls_subscribers with that very list')
    crate = prog.crate(WB)
    n = 0
    for fname in ('set', 'cset', 'delete', 'internal_pdelete'):
        f, paths = core_paths(prog, fname)
        b = Bindings(crate, f)
        bad = None
        cnt = 0
        for (ex, t, v) in ok_exits(paths):
            i = mutation_effective(t)
            if i < 0:
                continue
            cnt += 1
            tb = [base(x) for x in t]
            some = [j for j, x in enumerate(tb) if re.match(r'mut:\w+(#Some(\.0)?)?\[1\]@Some$', x)]
            none = [j for j, x in enumerate(tb) if re.match(r'mut:\w+(#Some(\.0)?)?\[1\]@None$', x)]
            if not some and not none:
                bad = ('the ls-subscriber list of the store result is never tested', t)
            for j in some:
                if 'notify_ls' not in tb[j:]:
                    bad = ('affected ls-subscribers are dropped', t)
            if 'notify_ls' in tb and not some:
                bad = ('notify_ls_subscribers outside the Some edge', t)
        n += 1
        calls = crate.calls(f, lambda c: c == f'{CORE}::notify_ls_subscribers')
        arg_ok = len(calls) == 1 and any(x.startswith(f'call({STORE}::') and '[1]' in x for x in b.origins(calls[0][0]['args'][1]))
        if bad:
            rep.violation('C05.a', f'Worterbuch::{fname}', f.loc, f'{bad[0]}: trace={list(bad[1])}', key=f'C05.a/{fname}/{bad[0]}')
        elif not arg_ok or cnt == 0:
            rep.violation('C05.a', f'Worterbuch::{fname}', f.loc, 'notify_ls_subscribers is not called with the list the store returned',
                          key=f'C05.a/{fname}/operand')
        else:
            rep.ok('C05.a', f'Worterbuch::{fname}', loc(f, calls[0][0]), f'{cnt} Ok paths: list tested, Some edge forwards it')
    rep.floor('C05.a', n, 4, 'forwarding core functions')
    # notify_ls_subscribers sends every list to every subscriber of its entry
    f = crate.fn(f'{CORE}::notify_ls_subscribers')
    b = Bindings(crate, f)
    sends = [(nd, anc) for nd, anc in crate.walk_fn(f) if nd.get('k') == 'call' and callee(nd).endswith('LsSubscriber::send')]
    good = len(sends) == 1 and sum(1 for a in sends[0][1] if a.get('k') == 'for') == 2 and \
        any('param(ls_subscribers)' in x and '[1]' in x for x in b.origins(sends[0][0]['args'][1]))
    if good:
        rep.ok('C05.a', 'notify_ls_subscribers', loc(f, sends[0][0]), 'for every (subscribers, children): every subscriber gets children')
    else:
        rep.violation('C05.a', 'notify_ls_subscribers', f.loc, 'does not send each child list to each of its subscribers',
                      key='C05.a/notify_ls_subscribers')


def rule_b(prog, rep):
    rep.rule('C05.b', 'T6', 'every request-reachable tree mutator reports ls changes: each Store method that can create or remove '
             'nodes of the data tree (reaches get_or_create_child / trim / drop_children) and is called from a Worterbuch '
             'request function returns the affected ls-subscribers (its signature mentions LsSubscriber)')
    crate = prog.crate(WB)
    # local call graph inside store.rs
    reach = {}
    shape = ('Node::<K, V>::get_or_create_child', 'Node::<K, V>::trim', 'Node::<K, V>::drop_children')
    store_fns = [f for f in crate.top_fns() if f.path.startswith(STORE + '::')]
    direct = {f.path: {callee(nd) for nd, a in crate.calls(f)} for f in store_fns}

    def reaches(p, seen=None):
        seen = seen or set()
        if p in seen:
            return False
        seen.add(p)
        cs = direct.get(p, set())
        if any(any(c.endswith(s) for s in shape) for c in cs):
            return True
        return any(reaches(c, seen) for c in cs if c in direct)
    called_from_core = set()
    for f in crate.top_fns():
        if f.path.startswith(CORE + '::'):
            for nd, a in crate.calls(f):
                c = callee(nd)
                if c.startswith(STORE + '::'):
                    called_from_core.add(c)
    n = 0
    for f in store_fns:
        if f.path not in called_from_core or not reaches(f.path):
            continue
        if 'mut store::Store' not in f.sig.split(',')[0]:
            continue
        name = short(f.path)
        if name in ('lock', 'acquire_lock', 'unlock', 'unlock_all', 'delete_lock_node', 'reset', 'export', 'export_for_persistence'):
            continue  # lock tree / wholesale replacement (reset: follower sync, no per-key requests)
        n += 1
        ret = f.sig.split('->')[-1]
        if 'LsSubscriber' in ret:
            rep.ok('C05.b', f'Store::{name}', f.loc, 'returns the affected ls-subscribers')
        else:
            rep.violation('C05.b', f'Store::{name}', f.loc, f'changes the shape of the data tree for a request but returns no '
                          f'ls-subscriber information ({ret.strip()[:120]}): ls-subscribers are not told',
                          key=f'C05.b/{name}/no-ls-report')
    rep.floor('C05.b', n, 4, 'request-reachable tree mutators')


def rule_c(prog, rep):
    rep.rule('C05.c', 'T2', 'report after prune: in ndelete and ndelete_child_matches the new child list is taken with ls_owned() on '
             'the true edge of node.trim() (after pruning); in Store::insert the lists are computed after set_value')
    crate = prog.crate(WB)
    n = 0
    for name in ('ndelete', 'ndelete_child_matches'):
        f = crate.fn(f'{STORE}::{name}')
        trav_ex = {f'{STORE}::{x}' for x in ('ndelete', 'ndelete_matches', 'ndelete_child_matches', 'ncollect_matches')} | \
            {g.path for g in crate.top_fns() if g.path.startswith('store::Node::<K, V>::')}
        ls = [(nd, anc) for nd, anc, owner in crate.walk_fn_deep(f, exclude=trav_ex) if nd.get('k') == 'call' and short(callee(nd)) == 'ls_owned']
        good = False
        for nd, anc in ls:
            for it in guards(anc + (nd,)):
                if it[0] == 'if' and it[2] is True:
                    c, pol = strip_not(it[1])
                    if pol and c.get('k') == 'call' and short(callee(c)) == 'trim':
                        good = True
        n += 1
        if good and len(ls) == 1:
            rep.ok('C05.c', f'Store::{name}', loc(f, ls[0][0]), 'ls_owned() under `if node.trim()`')
        else:
            rep.violation('C05.c', f'Store::{name}', f.loc, 'the reported child list is not taken after a successful trim()',
                          key=f'C05.c/{name}/order')
    f = crate.fn(f'{STORE}::insert')

    def classify(nd, anc):
        if nd.get('k') != 'call':
            return None
        c = callee(nd)
        if c.endswith('Node::<K, V>::set_value'):
            return 'set'
        if c in (f'{STORE}::ls', f'{STORE}::ls_root'):
            return 'ls'
        return None
    paths = Tracer(crate, classify, closure_mode=lambda c, cl: 'optional', max_paths=20000).run_fn(f)
    bad = [t for (ex, t, v) in paths if 'ls' in [base(x) for x in t] and
           ('set' not in [base(x) for x in t] or [base(x) for x in t].index('set') > [base(x) for x in t].index('ls'))]
    n += 1
    if bad:
        rep.violation('C05.c', 'Store::insert', f.loc, f'child lists computed before the value is stored: {list(bad[0])}',
                      key='C05.c/insert/order')
    elif not any('ls' in [base(x) for x in t] for (ex, t, v) in paths):
        rep.violation('C05.c', 'Store::insert', f.loc, 'anchor: no ls computation found', key='C05.c/insert/anchor')
    else:
        rep.ok('C05.c', 'Store::insert', f.loc, 'child lists are computed after set_value')
    rep.floor('C05.c', n, 3, 'report sites')
    # insert records an affected parent exactly when a node was created there
    b = Bindings(crate, f)
    pushes = [(nd, anc) for nd, anc in crate.walk_fn(f) if nd.get('k') == 'call' and short(callee(nd)) == 'push']
    good = False
    for nd, anc in pushes:
        for it in guards(anc + (nd,)):
            if it[0] == 'if' and it[2] is True:
                for c in conjuncts(it[1]):
                    if c.get('k') == 'path' and any('get_or_create_child' in x and x.endswith('[1]') for x in b.origins(c)):
                        good = True
    if good:
        rep.ok('C05.c', 'Store::insert:created', loc(f, pushes[0][0]), 'a parent is recorded iff get_or_create_child reported `created`')
    else:
        rep.violation('C05.c', 'Store::insert:created', f.loc, 'affected parents are not recorded under the `created` flag',
                      key='C05.c/insert/created')


def rule_e(prog, rep):
    rep.rule('C05.e', 'T2/T7', 'initial list: Worterbuch::subscribe_ls registers the subscriber and sends the current ls(parent) '
             'into the registered channel before returning; the subscriber is registered under the requested parent path')
    crate = prog.crate(WB)
    f = crate.fn(f'{CORE}::subscribe_ls')
    b = Bindings(crate, f)
    sends = [nd for nd, anc in crate.walk_fn(f) if nd.get('k') == 'call' and is_mpsc_send(callee(nd))]
    news = crate.calls(f, lambda c: c.endswith('LsSubscriber::new'))
    adds = crate.calls(f, lambda c: c.endswith('Store::add_ls_subscriber'))
    if len(sends) != 1 or len(news) != 1 or len(adds) != 1:
        rep.violation('C05.e', 'subscribe_ls', f.loc, f'{len(sends)} sends, {len(news)} LsSubscriber::new, {len(adds)} add_ls_subscriber',
                      key='C05.e/subscribe_ls/sites')
        return
    same = b.origins(sends[0]['args'][0]) == b.origins(news[0][0]['args'][2]) and all('channel' in x for x in b.origins(sends[0]['args'][0]))
    payload = b.origins(sends[0]['args'][1])
    pay_ok = any(f'call({CORE}::ls)' in x for x in payload)
    lsc = crate.calls(f, lambda c: c == f'{CORE}::ls')
    arg_ok = len(lsc) == 1 and b.origins(lsc[0][0]['args'][1]) == {'param(parent)'}
    path_ok = b.origins(adds[0][0]['args'][1]) == b.origins(news[0][0]['args'][1]) and \
        any('param(parent)' in x for x in b.origins(adds[0][0]['args'][1]))
    guarded = [it for it in guards(tuple(a for a in []) + (sends[0],)) if it[0] == 'if']

    def classify(nd, anc):
        if nd.get('k') != 'call':
            return None
        c = callee(nd)
        if c.endswith('Store::add_ls_subscriber'):
            return 'register'
        if is_mpsc_send(c):
            return 'initial'
        return None
    paths = Tracer(crate, classify).run_fn(f)
    every = all('register' in t and 'initial' in t for (ex, t, v) in ok_exits(paths)) and bool(ok_exits(paths))
    if same and pay_ok and arg_ok and path_ok and every:
        rep.ok('C05.e', 'subscribe_ls', loc(f, sends[0]), 'every Ok path registers under `parent` and sends ls(parent) into the registered channel')
    else:
        rep.violation('C05.e', 'subscribe_ls', f.loc, f'same-channel={same}, payload-is-ls={pay_ok}, ls-operand={arg_ok}, '
                      f'registered-under-parent={path_ok}, on-every-path={every}', key='C05.e/subscribe_ls')
    # ls_path: NoSuchValue exactly when the store has no node
    g = crate.fn(f'{CORE}::ls_path')
    cs = {callee(nd) for nd, a in crate.calls(g)}
    if f'{STORE}::ls' in cs and f'{STORE}::ls_root' in cs and any(ctor_name(nd) and 'NoSuchValue' in ctor_name(nd) for nd, a in crate.walk_fn(g)):
        rep.ok('C05.e', 'ls_path', g.loc, 'root -> ls_root(); else store.ls(path), None -> NoSuchValue')
    else:
        rep.violation('C05.e', 'ls_path', g.loc, 'ls no longer maps a missing node to NoSuchValue', key='C05.e/ls_path')


def rule_f(prog, rep):
    rep.rule('C05.f', 'T6', 'the ls-subscriber tree is walked in lockstep with the data tree: every call of a store traversal that '
             'carries `subscribers: Option<&SubscribersNode>` passes, when it descends into child k of the data node, '
             '`subscribers.and_then(|s| s.tree.get(k))` for the same k, and passes `subscribers` unchanged when it stays on the '
             'same node; the public entry points start with the root of both trees (or None for pure reads)')
    crate = prog.crate(WB)
    sfns = [f for f in crate.top_fns() if f.path.startswith(STORE + '::')]
    carriers = {}
    for f in sfns:
        names = [p.get('name') for p in f.params if isinstance(p, dict)]
        if 'subscribers' in names and 'node' in names:
            carriers[f.path] = (names.index('node'), names.index('subscribers'))
    n = 0
    for g in sfns:
        b = None
        for nd, anc in crate.walk_fn(g):
            if nd.get('k') != 'call' or callee(nd) not in carriers:
                continue
            pn, ps = carriers[callee(nd)]
            b = b or Bindings(crate, g)
            n += 1
            an, asub = nd['args'][pn], nd['args'][ps]
            on = b.origins(an)
            inst = f'{short(g.path)}->{short(callee(nd))}'
            sub_e = b.deref_local(asub)
            os_ = b.origins(asub)
            descends = any('get_child' in x or 'sub_tree' in x for x in on)
            if not descends:
                top = all(x in ('param(node)',) for x in on)
                root = all(x.startswith('param(self).data') for x in on)
                if top and os_ == {'param(subscribers)'}:
                    rep.ok('C05.f', inst, loc(g, nd), 'same node, same subscriber node')
                elif root and (all(x.startswith('param(self).subscribers') for x in os_) or all('None' in x for x in os_)):
                    rep.ok('C05.f', inst, loc(g, nd), 'entry point: root of the data tree with ' + ('the root of the subscriber tree'
                           if all(x.startswith('param(self).subscribers') for x in os_) else 'no subscribers (read only)'))
                else:
                    rep.violation('C05.f', inst, loc(g, nd), f'node <- {sorted(on)} but subscribers <- {sorted(os_)}',
                                  key=f'C05.f/{inst}/same-node', expected='subscribers passed on unchanged')
                continue
            # descending: subscribers.and_then(|s| s.tree.get(k))
            good = False
            why = f'subscribers <- {sorted(os_)}'
            if isinstance(sub_e, dict) and sub_e.get('k') == 'call' and short(callee(sub_e)) == 'and_then' and \
                    b.origins(sub_e['args'][0]) == {'param(subscribers)'} and sub_e['args'][1].get('k') == 'closure':
                cl = crate.closure(sub_e['args'][1]['def'])
                gets = [x for x, _ in walk(cl.hir) if x.get('k') == 'call' and short(callee(x)) == 'get' and
                        any(y.get('k') == 'field' and y['name'] == 'tree' for y, _ in walk(x['args'][0]))]
                if len(gets) == 1:
                    k2 = b.origins(gets[0]['args'][1])
                    # the data key
                    child = b.deref_local(an)
                    k1 = None
                    src = child
                    while isinstance(src, dict) and src.get('k') in ('try', 'ref', 'await'):
                        src = src['e']
                    if any('sub_tree' in x for x in on):
                        k1 = {x[:-3] + '[0]' for x in on if x.endswith('[1]')}
                    else:
                        gc = [x for x in on if 'get_child' in x]
                        # find the get_child call the child came from
                        for x, _ in crate.walk_fn(g):
                            if x.get('k') == 'call' and short(callee(x)) in ('get_child', 'get_child_mut'):
                                if any(o.startswith(f'call({callee(x)})') for o in on):
                                    k1 = b.origins(x['args'][1])
                    if k1 is not None and k1 == k2:
                        good = True
                    else:
                        why = f'data child key <- {sorted(k1 or [])}, subscriber child key <- {sorted(k2)}'
            if good:
                rep.ok('C05.f', inst, loc(g, nd), 'descends into the same child of both trees')
            else:
                rep.violation('C05.f', inst, loc(g, nd), 'descends into a child of the data tree without descending into the same child '
                              f'of the subscriber tree ({why})', key=f'C05.f/{inst}/lockstep',
                              expected='subscribers.and_then(|s| s.tree.get(<same key>))')
    rep.floor('C05.f', n, 12, 'traversal call sites carrying subscribers')
    # Store::insert walks both trees itself
    f = crate.fn(f'{STORE}::insert')
    b = Bindings(crate, f)
    loops = [nd for nd, a in crate.walk_fn(f) if nd.get('k') == 'for']
    good = False
    if loops:
        # the subscriber cursor: the local initialised from `self.subscribers` that is re-assigned in the loop
        asg = [x for x, _ in walk(loops[0]['body']) if x.get('k') == 'assign' and x['l'].get('k') == 'path' and
               x['l'].get('res') == 'local' and any(o.startswith('param(self).subscribers') for o in b.origins(x['l']))]
        gc = [x for x, _ in walk(loops[0]['body']) if x.get('k') == 'call' and short(callee(x)) == 'get_or_create_child']
        if len(asg) == 1 and len(gc) == 1:
            r = asg[0]['r']
            if r.get('k') == 'call' and short(callee(r)) == 'and_then' and r['args'][1].get('k') == 'closure':
                cl = crate.closure(r['args'][1]['def'])
                gets = [x for x, _ in walk(cl.hir) if x.get('k') == 'call' and short(callee(x)) == 'get']
                good = len(gets) == 1 and b.origins(gets[0]['args'][1]) == b.origins(gc[0]['args'][1])
    if good:
        rep.ok('C05.f', 'insert:lockstep', f.loc, 'current_subscribers advances with the same path element as current_node')
    else:
        rep.violation('C05.f', 'insert:lockstep', f.loc, 'insert does not advance the subscriber cursor with the data cursor', key='C05.f/insert/lockstep')


def rule_g(prog, rep):
    rep.rule('C05.g', 'T1', 'the ls-subscriber registry (Store.subscribers, a trie keyed by parent path) is only ever extended '
             'node-wise; an ls subscription leaves it by id (retain(|s| s.id != ..)); no trie node is removed - the mutators walk '
             'this trie in lockstep with the data tree (C05.f), a pruned inner node would cut off the ls subscribers of every '
             'deeper parent')
    from .c03 import registry_mutations
    registry_mutations(prog, rep, 'C05.g', 'store::Store::', 'HashMap<std::string::String, store::SubscribersNode', 'Vec<subscribers::LsSubscriber',
                       3, 'ls registry mutation sites (1 entry + 2 retain)')


RULES = [('C05.g', rule_g), ('C05.f', rule_f), ('C05.a', rule_a), ('C05.b', rule_b), ('C05.c', rule_c), ('C05.e', rule_e)]
