"""Shared path analysis of the core write functions of `Worterbuch` (used by C01, C03, C05, C08, C18).

Events:
  guard              check_for_read_only_key(..)
  mut:<fn>           Store::{insert_plain, insert_cas, insert, delete, delete_matches, merge}   (+ edge events @Ok/@Err/@Some/@None,
                     and `mut:<fn>[1]@Some` style events where a component of the result is tested)
  persist:update / persist:delete     PersistentStorageImpl::{update_value, delete_value}
  notify / notify_ls                  Worterbuch::{notify_subscribers, notify_ls_subscribers}
  f:<short name>     any other call whose result may be an Err (fallibility fixpoint)
"""
import re
from ..ir import callee, short
from ..trace import Tracer, base
from ..fallible import Fallibility
from .common import WB, CORE, STORE

MUTATORS = ('insert_plain', 'insert_cas', 'insert', 'delete', 'delete_matches', 'merge')
WRITE_FNS = ('set', 'cset', 'delete', 'internal_pdelete', 'import')

def fallibility(prog):
    # cached on the Program object itself (one Program per fact directory; a module-level cache would leak between the
    # mutants of a self-test run)
    if getattr(prog, '_fallibility', None) is None:
        prog._fallibility = Fallibility(prog.crate(WB))
    return prog._fallibility


def classify_core(fall):
    def classify(n, anc):
        if n.get('k') != 'call':
            return None
        c = callee(n)
        sh = short(c)
        if c.endswith('worterbuch::check_for_read_only_key'):
            return 'guard'
        if c.startswith(STORE + '::') and sh in MUTATORS and c == f'{STORE}::{sh}':
            return 'mut:' + sh
        if c.endswith('PersistentStorageImpl::update_value'):
            return 'persist:update'
        if c.endswith('PersistentStorageImpl::delete_value'):
            return 'persist:delete'
        if c == f'{CORE}::notify_subscribers':
            return 'notify'
        if c == f'{CORE}::notify_ls_subscribers':
            return 'notify_ls'
        if not n.get('res', '').startswith('Ctor') and fall.value_of(n) == 'maybe' and sh not in ('map_err', 'context'):
            return 'f:' + sh
        return None
    return classify


def core_paths(prog, fname, cond_events=()):
    crate = prog.crate(WB)
    f = crate.fn(f'{CORE}::{fname}')
    fall = fallibility(prog)
    tr = Tracer(crate, classify_core(fall), value_of_call=fall.value_of, cond_events=cond_events, max_paths=20000, inline_local=True)
    return f, tr.run_fn(f)


def mutation_effective(trace):
    """index of the first store mutator event whose mutation took effect on this path, else -1.
    Not effective: the mutator itself returned Err (`mut:x@Err`) or reported that nothing was there (`mut:x@None`)."""
    for i, ev in enumerate(trace):
        b = base(ev)
        if b.startswith('mut:') and '@' not in b and '[' not in b:
            rest = [base(x) for x in trace[i + 1:]]
            if f'{b}@Err' in rest or f'{b}@None' in rest:
                continue
            return i
    return -1


def failing_event(trace):
    """the `X@Err` edge that produced an error exit (last one on the path)"""
    for ev in reversed(trace):
        b = base(ev)
        if b.endswith('@Err') or b.endswith('@None'):
            return b.rsplit('@', 1)[0]
    return None


def core_write_operands(prog, rep, rid):
    """Worterbuch::set / cset hand the request to the store unchanged: Store::insert_plain(parse_segments(key), value, force) and
    Store::insert_cas(parse_segments(key), value, version, force) - the version check and the force flag are the caller's, the core
    neither relaxes nor rewrites them (followers and embedded clients re-run the same check through this function)"""
    from ..prov import Bindings
    from ..ir import callee
    from .common import loc
    crate = prog.crate(WB)
    for fname, sfn, ops in (('set', 'insert_plain', ('value', 'force')), ('cset', 'insert_cas', ('value', 'version', 'force'))):
        f = crate.fn(f'{CORE}::{fname}')
        b = Bindings(crate, f)
        calls = crate.calls(f, lambda c: c == f'{STORE}::{sfn}')
        problems = []
        if len(calls) != 1:
            problems.append(f'{len(calls)} calls of Store::{sfn}')
        else:
            a = calls[0][0]['args']
            po = b.origins(a[1])
            if not po or not all('parse_segments' in x for x in po):
                problems.append(f'path <- {sorted(po)}')
            for i, name in enumerate(ops):
                o = b.origins(a[2 + i])
                if o != {f'param({name})'}:
                    problems.append(f'{name} <- {sorted(o)}')
        if problems:
            rep.violation(rid, f'Worterbuch::{fname}:operands', f.loc, f'Store::{sfn} is not called with the request\'s own operands: ' + '; '.join(problems),
                          key=f'{rid}/{fname}/operands/' + '|'.join(p_.split(' <-')[0] for p_ in problems),
                          expected=f'Store::{sfn}(parse_segments(key), ' + ', '.join(ops) + ')')
        else:
            rep.ok(rid, f'Worterbuch::{fname}:operands', loc(f, calls[0][0]), f'Store::{sfn}(parse_segments(key), ' + ', '.join(ops) + ') - unchanged')
