"""C09 — what was flushed is what is loaded (structural clauses)."""
from ..ir import callee, short, walk, ctor_name, pat_variants, guards, AnchorMissing
from ..trace import Tracer, ok_exits, err_exits, base
from ..prov import Bindings
from ..serde_rules import Shapes, lint, attr
from .common import *

NOT_DECIDED = ('fidelity for every JSON value (numbers: C14.b); files written by older releases in the v1/v2 layouts beyond the load '
               'order; the behaviour when the registrations file of the chosen slot is unreadable (it is silently skipped)')

J3 = 'persistence::json::v3'
J2 = 'persistence::json::v2'
J1 = 'persistence::json::v1'


def rule_a(prog, rep):
    rep.rule('C09.a', 'T8', 'shape of the persisted types (closure of PersistedStore and GraveGoodsLastWill): no untagged variant '
             'whose payload can encode like a tagged sibling; skip_serializing_if only on Option / with default; skipped fields '
             'have defaults; map keys are strings')
    sh = Shapes(prog.serde, prefer_dirs=('worterbuch/', 'worterbuch-common/'))
    types = {}
    for r in ('PersistedStore', 'GraveGoodsLastWill'):
        t = sh.get(r, 'worterbuch/')
        if t is None:
            rep.violation('C09.a', r, '', 'persisted root type not found', key=f'C09.a/{r}/anchor-missing')
            continue
        types.update(sh.closure([r], near=t['file']))
    n = lint(sh, types, rep, 'C09.a', 'persisted')
    rep.analysed['persisted_types'] = sorted(types)
    rep.floor('C09.a', n, 5, 'persisted types')
    # map keys are strings: Tree<K, V> = HashMap<RegularKeySegment, Node<K, V>>
    tree = sh.get('Tree', 'worterbuch/src/store.rs')
    rk = sh.get('RegularKeySegment')
    if tree and tree['kind'] == 'alias' and tree['ty'].startswith('HashMap<RegularKeySegment,') and rk and rk['ty'] == 'String':
        rep.ok('C09.a', 'Tree:keys', f"{tree['file']}:{tree['line']}", 'HashMap<RegularKeySegment = String, Node>')
    else:
        rep.violation('C09.a', 'Tree:keys', '', f'the persisted tree map is {tree and tree.get("ty")}', key='C09.a/tree-keys')


def rule_b(prog, rep):
    rep.rule('C09.b', 'T6', 'writer / reader agree on the envelope: the literal object key in synchronous()\'s json!({ "data": .. }) is '
             'the serde name of PersistedStore\'s only field; the asynchronous path serialises a PersistedStore itself '
             '(export_for_persistence); the reader decodes PersistedStore')
    crate = prog.crate(WB)
    sh = Shapes(prog.serde)
    ps = sh.get('PersistedStore', 'worterbuch/')
    keys = sh.keys_of(ps)
    f = crate.fn(f'{J3}::synchronous')
    txt = deep_text(crate, f.hir) + ' '.join(str(c.hir) for c in crate.closures_of(f))
    # json! expands to a map insert with the literal key
    lits = [nd['v'].get('v') for c in [f] + crate.closures_of(f) for nd, a in walk(c.hir) if nd.get('k') == 'lit' and nd['v'].get('t') == 'str'
            and not nd.get('x')]
    if len(keys) == 1 and keys[0] in lits and all(x == keys[0] for x in lits):
        rep.ok('C09.b', 'synchronous:envelope', f.loc, f'json!({{"{keys[0]}": ..}}) == PersistedStore field name')
    else:
        rep.violation('C09.b', 'synchronous:envelope', f.loc, f'json! object keys {sorted(set(lits))} vs PersistedStore keys {keys}',
                      key=f'C09.b/synchronous/{"|".join(sorted(set(lits)))}', expected=str(keys))
    w = crate.fn(f'{CORE}::export_for_persistence')
    if any(callee(nd) == f'{STORE}::export_for_persistence' for nd, a in crate.calls(w)):
        e = crate.fn(f'{STORE}::export_for_persistence')
        if any((nd.get('path') or '').endswith('PersistedStore') for nd, a in crate.walk_fn(e) if nd.get('k') == 'struct'):
            rep.ok('C09.b', 'asynchronous:envelope', e.loc, 'the periodic flush serialises PersistedStore { data }')
        else:
            rep.violation('C09.b', 'asynchronous:envelope', e.loc, 'export_for_persistence does not build a PersistedStore', key='C09.b/asynchronous')
    else:
        rep.violation('C09.b', 'asynchronous:envelope', w.loc, 'the periodic export does not go through Store::export_for_persistence',
                      key='C09.b/asynchronous/export')
    for mod in (J3, J2):
        t = crate.fn(f'{mod}::try_load')
        fp = crate.calls(t, lambda c: c == f'{CORE}::from_persistence')
        ok_ty = fp and 'PersistedStore' in crate.fn(f'{CORE}::from_persistence').sig
        if ok_ty:
            rep.ok('C09.b', f'{short(mod)}::try_load', t.loc, 'decodes into PersistedStore (Worterbuch::from_persistence)')
        else:
            rep.violation('C09.b', f'{short(mod)}::try_load', t.loc, 'reader does not decode a PersistedStore', key=f'C09.b/{mod}/try_load')


def rule_c(prog, rep):
    rep.rule('C09.c', 'T3', '$SYS is stripped: Store::export calls Node::strip on the exported copy on every path and returns that '
             'copy; strip removes SYSTEM_TOPIC_ROOT; both flush paths take their data from export')
    crate = prog.crate(WB)
    f = crate.fn(f'{STORE}::export')
    b = Bindings(crate, f)

    def classify(nd, anc):
        if nd.get('k') == 'call' and callee(nd).endswith('Node::<K, V>::strip'):
            return 'strip'
        return None
    paths = Tracer(crate, classify).run_fn(f)
    st = crate.calls(f, lambda c: c.endswith('Node::<K, V>::strip'))
    strip_fns = [x for x in crate.top_fns() if x.path.endswith('::strip') and x.path.startswith('store::Node')]
    # every use of SYSTEM_TOPIC_ROOT in export / strip must be an exact match of one segment (remove(ROOT), `== ROOT`, `!= ROOT`):
    # a prefix test would also drop user keys such as `$SYSTEM/..`
    inexact, exact = [], []
    for g in [f] + strip_fns:
        for body in [g] + crate.closures_of(g):
            for nd, anc in walk(body.hir):
                if nd.get('k') == 'path' and str(nd.get('path') or '').endswith('SYSTEM_TOPIC_ROOT'):
                    chain = [a for a in anc if isinstance(a, dict)]
                    par = next((a for a in reversed(chain) if a.get('k') in ('call', 'binary')), {})
                    if par.get('k') == 'binary' and par.get('op') in ('Eq', 'Ne'):
                        exact.append((g, par))
                    elif par.get('k') == 'call' and short(callee(par)) in ('remove', 'remove_entry', 'eq', 'ne'):
                        exact.append((g, par))
                    else:
                        inexact.append((g, par))
    if inexact:
        g, par = inexact[0]
        how = short(callee(par)) if par.get('k') == 'call' else par.get('k')
        rep.violation('C09.c', 'Store::export:exact-segment', loc(g, par), f'$SYS is matched with `{how}`: more than the one `$SYS` segment is left '
                      'out of the export (user keys whose first segment merely starts with $SYS are lost on the next load)',
                      key=f'C09.c/export/inexact/{how}')
    if st:
        ret_o = b.origins(f.hir)
        same = ret_o == b.origins(st[0][0]['args'][0]) and all(x.startswith('call(') for x in ret_o)
        if paths and all('strip' in t for (ex, t, v) in paths) and same:
            rep.ok('C09.c', 'Store::export', f.loc, 'strips the copy it returns, on every path')
        else:
            rep.violation('C09.c', 'Store::export', f.loc, f'strip on every path={all("strip" in t for (ex, t, v) in paths)}, '
                          f'returned value is the stripped one={same}', key='C09.c/export/strip')
        s = strip_fns[0] if strip_fns else None
        rm = [nd for nd, a in crate.calls(s, lambda c: short(c) == 'remove')] if s else []
        if rm and any('SYSTEM_TOPIC_ROOT' in str(a)[:300] for a in rm[0]['args']):
            rep.ok('C09.c', 'Node::strip', s.loc, 'removes the SYSTEM_TOPIC_ROOT child')
        else:
            rep.violation('C09.c', 'Node::strip', s.loc if s else f.loc, 'does not remove SYSTEM_TOPIC_ROOT', key='C09.c/strip')
    else:
        # filtering form: the exported children are the root's children with `segment != SYSTEM_TOPIC_ROOT`
        flt = [nd for nd, a in crate.walk_fn(f) if nd.get('k') == 'call' and short(callee(nd)) in ('filter', 'retain')]
        keep_ne = False
        for fl in flt:
            for a in fl['args']:
                if a.get('k') == 'closure':
                    body = crate.closure(a['def']).hir
                    while body.get('k') == 'block' and not body.get('stmts') and 'tail' in body:
                        body = body['tail']
                    e, pol = body, True
                    while e.get('k') == 'unary' and e.get('op') == 'Not':
                        e, pol = e['e'], not pol
                    if e.get('k') == 'binary' and 'SYSTEM_TOPIC_ROOT' in str(e)[:1500] and ((e['op'] == 'Ne') == pol) and e['op'] in ('Ne', 'Eq'):
                        keep_ne = True
        if keep_ne and not inexact:
            rep.ok('C09.c', 'Store::export', f.loc, 'exports the children of the root except the one named SYSTEM_TOPIC_ROOT')
        elif not inexact:
            rep.violation('C09.c', 'Store::export', f.loc, 'neither strips the exported copy nor filters the `$SYS` child by equality',
                          key='C09.c/export/strip')
    for name, src in ((f'{J3}::synchronous', f'{CORE}::export'), (f'{CORE}::export_for_persistence', f'{STORE}::export_for_persistence')):
        g = crate.fn(name)
        if crate.calls(g, lambda c: c == src):
            rep.ok('C09.c', f'{short(name)}:source', g.loc, f'data <- {short(src)}()')
        else:
            rep.violation('C09.c', f'{short(name)}:source', g.loc, f'does not take its data from {src}', key=f'C09.c/{name}/source')
    e = crate.fn(f'{CORE}::export')
    if crate.calls(e, lambda c: c == f'{STORE}::export'):
        rep.ok('C09.c', 'Worterbuch::export', e.loc, 'store <- Store::export()')
    else:
        rep.violation('C09.c', 'Worterbuch::export', e.loc, 'does not use Store::export', key='C09.c/Worterbuch::export')
    ep = crate.fn(f'{STORE}::export_for_persistence')
    if crate.calls(ep, lambda c: c == f'{STORE}::export'):
        rep.ok('C09.c', 'Store::export_for_persistence', ep.loc, 'data <- Store::export()')
    else:
        rep.violation('C09.c', 'Store::export_for_persistence', ep.loc, 'does not use Store::export', key='C09.c/export_for_persistence')


def rule_d(prog, rep):
    rep.rule('C09.d', 'T2/T4', 'load chain and validation: json::load tries v3, v2 only in the Err arm of v3, v1 only in the Err arm of '
             'v2; v3::read_json_from_file validates the checksum before handing the content out and both v3 loaders read '
             'through it; v1::try_load compares the digest before parsing')
    crate = prog.crate(WB)
    f = crate.fn('persistence::json::load')
    order = {f'{J3}::load': 'v3', f'{J2}::load': 'v2', f'{J1}::load': 'v1'}

    def classify(nd, anc):
        if nd.get('k') == 'call' and callee(nd) in order:
            return order[callee(nd)]
        return None
    paths = Tracer(crate, classify).run_fn(f)
    seqs = {tuple(x for x in t) for (ex, t, v) in paths}
    want = {('v3', 'v3@Ok'), ('v3', 'v3@Err', 'v2', 'v2@Ok'), ('v3', 'v3@Err', 'v2', 'v2@Err', 'v1')}
    if seqs == want:
        rep.ok('C09.d', 'json::load', f.loc, 'v3, on error v2, on error v1')
    else:
        rep.violation('C09.d', 'json::load', f.loc, f'load order is {sorted(seqs)}', key='C09.d/load/order', expected=str(sorted(want)))
    r = crate.fn(f'{J3}::read_json_from_file')

    def cl2(nd, anc):
        if nd.get('k') == 'call':
            c = callee(nd)
            if c == f'{J3}::validate_checksum':
                return 'validate'
        return None
    paths = Tracer(crate, cl2).run_fn(r)
    oks = ok_exits(paths)
    b = Bindings(crate, r)
    vc = crate.calls(r, lambda c: c == f'{J3}::validate_checksum')
    ops = len(vc) == 1
    if oks and all('validate@Ok' in t for (ex, t, v) in oks) and ops:
        rep.ok('C09.d', 'v3::read_json_from_file', r.loc, 'content is returned only after validate_checksum(content, checksum)?')
    else:
        rep.violation('C09.d', 'v3::read_json_from_file', r.loc, 'file content can be returned without a successful checksum validation',
                      key='C09.d/read_json_from_file')
    n = 0
    for name in ('try_load', 'try_load_grave_goods_last_will'):
        g = crate.fn(f'{J3}::{name}')
        gb = Bindings(crate, g)
        fs = crate.calls(g, lambda c: 'serde_json' in c and short(c) == 'from_str')
        if len(fs) == 1 and any('read_json_from_file' in x for x in gb.origins(fs[0][0]['args'][0])):
            n += 1
            rep.ok('C09.d', f'v3::{name}', g.loc, 'parses what read_json_from_file returned')
        else:
            rep.violation('C09.d', f'v3::{name}', g.loc, 'does not parse the validated content', key=f'C09.d/{name}')
    rep.floor('C09.d', n, 2, 'v3 loaders reading through the validator')
    vcf = crate.fn(f'{J3}::validate_checksum')
    vb = Bindings(crate, vcf)
    eq = [nd for nd, a in crate.walk_fn(vcf) if nd.get('k') == 'binary' and nd.get('op') == 'Eq']
    if len(eq) == 1 and any('compute_checksum' in x for x in vb.origins(eq[0]['l']) | vb.origins(eq[0]['r'])) and \
            any(x == 'param(checksum)' for x in vb.origins(eq[0]['l']) | vb.origins(eq[0]['r'])):
        rep.ok('C09.d', 'v3::validate_checksum', vcf.loc, 'compute_checksum(data) == checksum, else ChecksumMismatch')
    else:
        rep.violation('C09.d', 'v3::validate_checksum', vcf.loc, 'does not compare the computed with the stored checksum', key='C09.d/validate_checksum')
    v1 = crate.fn(f'{J1}::try_load')
    cmp_ = [nd for nd, a in crate.walk_fn(v1) if nd.get('k') == 'binary' and nd.get('op') in ('Eq', 'Ne')]
    parse = [nd for nd, a in crate.calls(v1, lambda c: 'serde_json' in c and short(c) in ('from_str', 'from_slice'))]
    if cmp_ and parse and all(any(it[0] == 'if' for it in guards(a + (nd,))) for nd, a in crate.walk_fn(v1) if nd in parse):
        rep.ok('C09.d', 'v1::try_load', v1.loc, 'digest comparison guards the parse')
    else:
        rep.violation('C09.d', 'v1::try_load', v1.loc, 'the v1 loader parses without comparing the digest', key='C09.d/v1')


def rule_e(prog, rep):
    rep.rule('C09.e', 'T2', 'registrations applied on load: v3::load and v2::load call apply_grave_goods then apply_last_wills with the '
             'content of the loaded registrations file, on the store they loaded; the store file and the registrations file '
             'come from the same file_paths call (same slot)')
    crate = prog.crate(WB)
    n = 0
    for mod in (J3, J2):
        f = crate.fn(f'{mod}::load')
        b = Bindings(crate, f)

        def classify(nd, anc):
            if nd.get('k') != 'call':
                return None
            c = callee(nd)
            if c == f'{CORE}::apply_grave_goods':
                return 'gg'
            if c == f'{CORE}::apply_last_wills':
                return 'lw'
            if c == f'{mod}::try_load_grave_goods_last_will':
                return 'reg'
            return None
        paths = Tracer(crate, classify).run_fn(f)
        good = False
        for (ex, t, v) in ok_exits(paths):
            tb = [x for x in t if '@' not in x]
            if 'gg' in tb and 'lw' in tb:
                good = tb.index('gg') < tb.index('lw')
        gg = crate.calls(f, lambda c: c == f'{CORE}::apply_grave_goods')
        lw = crate.calls(f, lambda c: c == f'{CORE}::apply_last_wills')
        ops = len(gg) == 1 and len(lw) == 1 and all(x.endswith('.grave_goods') and 'try_load_grave_goods_last_will' in x for x in b.origins(gg[0][0]['args'][1])) \
            and all(x.endswith('.last_will') and 'try_load_grave_goods_last_will' in x for x in b.origins(lw[0][0]['args'][1]))
        n += 1
        if good and ops:
            rep.ok('C09.e', f'{short(mod)}::load', f.loc, 'apply_grave_goods(file.grave_goods) then apply_last_wills(file.last_will)')
        else:
            rep.violation('C09.e', f'{short(mod)}::load', f.loc, f'order ok={good}, operands from the loaded file={ops}',
                          key=f'C09.e/{mod}/apply')
    rep.floor('C09.e', n, 2, 'loaders applying registrations')
    # every entry of the loaded lists is applied: one entry that cannot be applied must not stop the others
    for fname, op, what in (('apply_grave_goods', f'{CORE}::pdelete', 'grave good'), ('apply_last_wills', f'{CORE}::set', 'last will')):
        f = crate.fn(f'{CORE}::{fname}')
        b = Bindings(crate, f)
        loops = [nd for nd, a in crate.walk_fn(f) if nd.get('k') == 'for']
        problems = []
        if len(loops) != 1 or not all(x.startswith('param(') for x in b.origins(loops[0]['iter'])):
            problems.append('no single loop over the given list')
        else:
            body = loops[0]['body']
            exits = [nd.get('k') for nd, a in walk(body) if nd.get('k') in ('try', 'return', 'break') and
                     not any(x.get('k') == 'closure' for x in a)]
            if exits:
                problems.append(f'the loop can be left early ({sorted(set(exits))}): an entry that cannot be applied stops the remaining ones')
            ops_ = [nd for nd, a in walk(body) if nd.get('k') == 'call' and callee(nd) == op]
            if len(ops_) != 1:
                problems.append(f'{len(ops_)} calls of {short(op)} per entry')
            else:
                o = b.origins(ops_[0]['args'][1])
                if not all('[*]' in x and x.startswith('param(') for x in o):
                    problems.append(f'the applied operand is not the list element ({sorted(o)})')
                if not any('INTERNAL_CLIENT_ID' in x for a_ in ops_[0]['args'][2:] for x in b.origins(a_)):
                    problems.append('not applied with the internal client id')
            # nothing before the loop may return
            pre = [nd.get('k') for nd, a in crate.walk_fn(f) if nd.get('k') in ('try', 'return') and not any(x is loops[0] for x in a) and
                   not any(x.get('k') == 'closure' for x in a)]
            if pre:
                problems.append('can return before the loop')
        if problems:
            rep.violation('C09.e', fname, f.loc, f'not every {what} is applied: ' + '; '.join(problems), key=f'C09.e/{fname}/' + '|'.join(p_.split(' (')[0] for p_ in problems))
        else:
            rep.ok('C09.e', fname, f.loc, f'every {what} of the list is applied with the internal id; a failing entry is skipped, not fatal')


def rule_f(prog, rep):
    rep.rule('C09.f', 'T1', 'loaded trees do not go through the forced-insert table: Worterbuch::from_persistence installs the decoded '
             'tree through From<PersistedStore> for Store (no Store::insert between file and core), so values, kinds and CAS '
             'versions are taken verbatim')
    crate = prog.crate(WB)
    f = crate.fn(f'{CORE}::from_persistence')
    cs = {callee(nd) for nd, a in crate.calls(f)}
    ins = [c for c in cs if c.startswith(STORE + '::insert')]
    conv = [c for c in cs if 'PersistedStore' in c and short(c) in ('from', 'into')] or [c for c in cs if short(c) == 'into']
    fr = [x for x in crate.top_fns() if short(x.path) == 'from' and 'PersistedStore' in x.sig and 'store::Store' in x.sig.split('->')[-1]]
    direct = False
    if len(fr) == 1:
        b = Bindings(crate, fr[0])
        st = [nd for nd, a in crate.walk_fn(fr[0]) if nd.get('k') == 'struct' and (nd.get('path') or '').endswith('store::Store')]
        direct = bool(st) and any(x['name'] == 'data' and b.origins(x['e']) == {'param(value).data'} for x in st[0]['fields']) and \
            not any(callee(nd).startswith(STORE + '::insert') for nd, a in crate.calls(fr[0]))
    if not ins and conv and direct:
        rep.ok('C09.f', 'from_persistence', f.loc, 'Store { data: persisted.data, .. } + count_entries(); no insert')
    else:
        rep.violation('C09.f', 'from_persistence', f.loc, f'insert calls={ins}, direct installation={direct}', key='C09.f/from_persistence')


def rule_g(prog, rep):
    from . import c10
    rep.rule('C09.g', 'T3/T7', 'every completed flush (periodic and shutdown) writes BOTH the store file and the registrations file, '
             'from one export() and into one slot - a flush that skips the registrations file leaves a stale one of an earlier '
             'flush in that slot, which the next load would apply')
    c10.rule_writes_both(prog, rep, 'C09.g')
    # .. and each of the two writes really (re)writes data + checksum (= C10.f)
    c10.rule_f(prog, Proxy(rep, 'C09.g'))


def rule_h(prog, rep):
    rep.rule('C09.h', 'T7+T3', 'the registrations that are flushed are all registrations: Worterbuch::grave_goods / last_wills read '
             '$SYS/clients/?/graveGoods resp. $SYS/clients/?/lastWill with pget, decode every returned value and push every decoded '
             'entry onto the list they return (no filter, no early exit); export() / export_for_persistence() hand out exactly these '
             'two lists next to the store')
    crate = prog.crate(WB)
    for fname, const in (('grave_goods', 'SYSTEM_TOPIC_GRAVE_GOODS'), ('last_wills', 'SYSTEM_TOPIC_LAST_WILL')):
        f = crate.fn(f'{CORE}::{fname}')
        b = Bindings(crate, f)
        problems = []
        txt = deep_text(crate, f.hir)
        for c_ in ('SYSTEM_TOPIC_ROOT', 'SYSTEM_TOPIC_CLIENTS', const):
            if c_ not in txt:
                problems.append(f'the pattern does not name {c_}')
        other = 'SYSTEM_TOPIC_LAST_WILL' if const.endswith('GRAVE_GOODS') else 'SYSTEM_TOPIC_GRAVE_GOODS'
        if other in txt:
            problems.append(f'the pattern names {other}')
        if 'KeySegment::Wildcard' not in txt:
            problems.append('the client segment is not the `?` wildcard')
        pg = crate.calls(f, lambda c: c == f'{CORE}::pget')
        if len(pg) != 1:
            problems.append(f'{len(pg)} pget calls')
        pushes = [(nd, anc) for nd, anc in crate.walk_fn(f) if nd.get('k') == 'call' and short(callee(nd)) == 'push' and 'Vec' in callee(nd)]
        chain_form = False
        if not pushes:
            # iterator spelling: pget(..).into_iter().flatten().filter_map(|kvp| from_value(kvp.value).ok()).flatten().collect()
            tail = crate.user_body(f).hir
            while isinstance(tail, dict) and tail.get('k') == 'block' and 'tail' in tail:
                tail = tail['tail']
            names, cur = [], tail
            while isinstance(cur, dict) and cur.get('k') == 'call' and cur['args'] and callee(cur) != f'{CORE}::pget':
                names.append(short(callee(cur)))
                cur = cur['args'][0]
                while isinstance(cur, dict) and cur.get('k') in ('ref',):
                    cur = cur['e']
            allowed = {'into_iter', 'iter', 'flatten', 'flat_map', 'filter_map', 'map', 'collect', 'ok', 'unwrap_or_default', 'cloned', 'into_values'}
            decodes = any(x.get('k') == 'call' and short(callee(x)) == 'from_value' for b_ in [f] + crate.closures_of(f) for x, _ in walk(b_.hir))
            chain_form = isinstance(cur, dict) and cur.get('k') == 'call' and callee(cur) == f'{CORE}::pget' and 'collect' in names and \
                set(names) <= allowed and decodes
        if chain_form:
            pass
        elif len(pushes) != 1:
            problems.append(f'{len(pushes)} push sites')
        else:
            nd, anc = pushes[0]
            loops = [a for a in anc if isinstance(a, dict) and a.get('k') == 'for']
            conds = [it for it in guards(anc + (nd,)) if it[0] == 'if']
            # guards: `if let Ok(..) = self.pget(..)` and `if let Ok(..) = serde_json::from_value(..)` only
            extra = [it for it in conds if not (it[1].get('k') == 'letcond' and it[2] is True)]
            if len(loops) != 2 or extra:
                problems.append('an entry is pushed only under an additional condition / not for every decoded entry')
            if not any('[*]' in x for x in b.origins(nd['args'][1])):
                problems.append(f'what is pushed is not the decoded entry ({sorted(b.origins(nd["args"][1]))})')
            tail = f.hir
            body = crate.user_body(f).hir
            ret = body.get('tail') if body.get('k') == 'block' else None
            while isinstance(ret, dict) and ret.get('k') == 'block' and 'tail' in ret:
                ret = ret['tail']
            if not (isinstance(ret, dict) and ret.get('k') == 'path' and ret.get('id') == (nd['args'][0].get('id') if nd['args'][0].get('k') == 'path' else
                                                                                         (nd['args'][0].get('e') or {}).get('id'))):
                problems.append('the list that is filled is not the one returned')
        def _dead(a):   # the `if false { .. return .. }` artefact of #[instrument]
            return any(isinstance(y, dict) and y.get('k') == 'if' and y['cond'].get('k') == 'lit' and y['cond']['v'].get('v') is False for y in a)
        exits = [x.get('k') for x, a in walk(crate.user_body(f).hir) if x.get('k') in ('return', 'break', 'continue', 'try') and
                 not x.get('x') and not _dead(a)]
        if exits:
            problems.append(f'early exit ({sorted(set(exits))})')
        if problems:
            rep.violation('C09.h', f'Worterbuch::{fname}', f.loc, '; '.join(problems), key=f'C09.h/{fname}/' + '|'.join(p_.split(' (')[0] for p_ in problems))
        else:
            rep.ok('C09.h', f'Worterbuch::{fname}', f.loc, f'pget($SYS/clients/?/{const}) -> every decoded entry pushed -> returned')
    for fname in ('export', 'export_for_persistence'):
        f = crate.fn(f'{CORE}::{fname}')
        cs = {callee(nd) for nd, a in crate.calls(f)}
        if f'{CORE}::grave_goods' in cs and f'{CORE}::last_wills' in cs:
            rep.ok('C09.h', f'Worterbuch::{fname}', f.loc, 'store + grave_goods() + last_wills()')
        else:
            rep.violation('C09.h', f'Worterbuch::{fname}', f.loc, 'does not export both registration lists', key=f'C09.h/{fname}/lists')


RULES = [('C09.h', rule_h), ('C09.g', rule_g), ('C09.a', rule_a), ('C09.b', rule_b), ('C09.c', rule_c), ('C09.d', rule_d), ('C09.e', rule_e), ('C09.f', rule_f)]
