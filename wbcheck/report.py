"""Obligations, violations, known findings, evidence files."""
import json
import os
import time

VERIF = os.path.dirname(os.path.dirname(os.path.abspath(__file__)))


class Report:
    """Collects what a property check analysed.  An *obligation* is one (rule, instance) pair that had something to
    check; verdict in {'ok', 'violation', 'known'}; key is line-number free."""

    def __init__(self, prop, tier):
        self.prop = prop
        self.tier = tier
        self.obligations = []
        self.rules = {}
        self.floors = {}
        self.analysed = {}
        self.t0 = time.time()
        self.notes = []
        self.not_decided = ''
        self.mutants = None
        self.configurations = ['default features (jemalloc, telemetry, redb, sqlite), dev profile']

    def rule(self, rid, template, text):
        self.rules[rid] = {'template': template, 'text': text, 'instances': 0, 'violations': 0}

    def ok(self, rid, instance, loc='', detail=''):
        self.obligations.append({'rule': rid, 'instance': instance, 'loc': loc, 'verdict': 'ok', 'detail': detail})
        self.rules[rid]['instances'] += 1

    def violation(self, rid, instance, loc='', detail='', key=None, expected=''):
        k = key or f'{rid}/{instance}'
        self.obligations.append({'rule': rid, 'instance': instance, 'loc': loc, 'verdict': 'violation',
                                 'detail': detail, 'key': k, 'expected': expected})
        self.rules[rid]['instances'] += 1
        self.rules[rid]['violations'] += 1

    def floor(self, rid, found, minimum, what):
        """fail closed if a rule matched fewer instances than were confirmed by hand"""
        self.floors[f'{rid}: {what}'] = {'found': found, 'floor': minimum}
        if found < minimum:
            self.violation(rid, f'instance-floor:{what}', '', f'rule matched {found} instances, floor is {minimum}: '
                           f'the rule no longer sees the code it was written for', key=f'{rid}/instance-floor/{what}')

    def anchor_missing(self, rid, msg):
        if rid not in self.rules:
            self.rule(rid, '-', 'anchor lookup')
        self.violation(rid, 'anchor-missing', '', str(msg), key=f'{rid}/anchor-missing/{msg}')

    def note(self, text):
        self.notes.append(text)


def load_known():
    p = os.path.join(VERIF, 'known_findings.json')
    if not os.path.exists(p):
        return {'findings': [], 'fixed': []}
    return json.load(open(p))


def finish(rep, seed=0):
    """prints KNOWN-FINDING / VIOLATION lines, writes evidence + replay files, returns exit code"""
    known = load_known()
    kmap = {}
    for f in known.get('findings', []):
        if f['property'] == rep.prop:
            for k in f['keys']:
                kmap[k] = f
    evdir = os.environ.get('WBVERIF_EVIDENCE', os.path.join(VERIF, 'evidence'))   # development runs on scratch copies redirect this
    viol_dir = os.path.join(evdir, 'violations')
    os.makedirs(viol_dir, exist_ok=True)
    for fn in os.listdir(viol_dir):
        if fn.startswith(rep.prop + '-'):
            os.remove(os.path.join(viol_dir, fn))
    unlisted = []
    matched = {}
    for o in rep.obligations:
        if o['verdict'] != 'violation':
            continue
        f = kmap.get(o['key'])
        if f is not None:
            o['verdict'] = 'known'
            o['finding'] = f['id']
            matched.setdefault(f['id'], []).append(o)
        else:
            unlisted.append(o)
    for fid, os_ in matched.items():
        f = next(x for x in known['findings'] if x['id'] == fid and x['property'] == rep.prop)
        print(f"KNOWN-FINDING: property={rep.prop} {fid} {f['what']} [{'; '.join(sorted({o['key'] for o in os_}))}]")
    n = 0
    for o in unlisted:
        n += 1
        path = os.path.join(viol_dir, f'{rep.prop}-{n}.json')
        with open(path, 'w') as fh:
            json.dump({'property': rep.prop, 'rule': o['rule'], 'rule_text': rep.rules.get(o['rule'], {}).get('text', ''),
                       'instance': o['instance'], 'location': o['loc'], 'detail': o['detail'],
                       'expected': o.get('expected', ''), 'key': o['key']}, fh, indent=1)
        print(f"  {o['rule']} {o['instance']} at {o['loc']}: {o['detail']}")
        print(f'VIOLATION property={rep.prop} replay={path}')
    # evidence
    distinct = {(o['rule'], o['instance']) for o in rep.obligations}
    samples = []
    seen_rules = set()
    for o in rep.obligations:
        if o['rule'] not in seen_rules or o['verdict'] != 'ok':
            seen_rules.add(o['rule'])
            samples.append({k: o[k] for k in ('rule', 'instance', 'loc', 'verdict', 'detail') if o.get(k) != ''})
    samples = samples[:60]
    expl = (f'Static analysis of /repo sources (resolved HIR/MIR facts from a rustc driver, serde attributes via syn, '
            f'cargo metadata). Rules applied: ' +
            ' | '.join(f"{rid} [{r['template']}] {r['text']}" for rid, r in rep.rules.items()) +
            ' || NOT decided by this check: ' + rep.not_decided)
    ev = {
        'property_id': rep.prop, 'tier': rep.tier, 'seed': seed, 'level': 'other',
        'coverage': {
            'explanation': expl,
            'evaluations': len(rep.obligations),
            'distinct_nontrivial': len(distinct),
            'rule': 'an evaluation is one (rule, construct) obligation found in the current source; distinct = distinct '
                    '(rule, instance) pairs; non-trivial = the rule had a concrete construct (call site, match arm, '
                    'table row, field, type) to judge',
            'samples': samples,
            'rules': rep.rules,
            'floors': rep.floors,
            'analysed': rep.analysed,
            'configurations': rep.configurations,
            'known_findings_matched': sorted(matched),
            'exhaustive': False,
        },
        'assumptions': ['rustc name resolution / type checking / MIR construction (nightly front end)',
                        'library semantics (tokio channels FIFO, serde data model, redb transactions) are not analysed',
                        'only the structural clauses named in coverage.explanation are decided, not the behaviour'],
        'wall_s': round(time.time() - rep.t0, 2),
        'violations': len(unlisted),
    }
    if rep.notes:
        ev['coverage']['notes'] = rep.notes
    if rep.mutants is not None:
        ev['coverage']['mutants'] = rep.mutants
    os.makedirs(evdir, exist_ok=True)
    with open(os.path.join(evdir, rep.prop + '.json'), 'w') as fh:
        json.dump(ev, fh, indent=1)
    nk = sum(len(v) for v in matched.values())
    print(f'[{rep.prop}] tier={rep.tier} obligations={len(rep.obligations)} distinct={len(distinct)} '
          f'violations={len(unlisted)} known={nk} wall={ev["wall_s"]}s')
    return 1 if unlisted else 0
