"""Serde shape lint (rule template T8) over the type facts of tools/serdeshape."""
import re

PRIMS = {'String', 'str', 'bool', 'u8', 'u16', 'u32', 'u64', 'usize', 'i8', 'i16', 'i32', 'i64', 'isize', 'f32', 'f64', 'char',
         'Value', 'Vec', 'Option', 'HashMap', 'BTreeMap', 'HashSet', 'Box', 'PhantomData', 'Duration', 'Uuid', 'SocketAddr',
         'IpAddr', 'PathBuf', 'K', 'V', 'T'}
UNIVERSAL = {'Value', 'serde_json::Value', 'json::Value'}


def words(s):
    out, cur = [], ''
    for ch in s:
        if ch.isalnum() or ch == '_':
            cur += ch
        else:
            if cur:
                out.append(cur)
            cur = ''
    if cur:
        out.append(cur)
    return out


def rename(name, rule, is_variant):
    if not rule:
        return name
    if is_variant:
        parts = re.findall(r'[A-Z][a-z0-9]*|[a-z0-9]+', name)
    else:
        parts = [p for p in name.split('_') if p]
    lw = [p.lower() for p in parts]
    if rule == 'camelCase':
        return lw[0] + ''.join(p.capitalize() for p in lw[1:]) if lw else name
    if rule == 'PascalCase':
        return ''.join(p.capitalize() for p in lw)
    if rule == 'snake_case':
        return '_'.join(lw)
    if rule == 'SCREAMING_SNAKE_CASE':
        return '_'.join(lw).upper()
    if rule == 'kebab-case':
        return '-'.join(lw)
    if rule == 'SCREAMING-KEBAB-CASE':
        return '-'.join(lw).upper()
    if rule == 'lowercase':
        return ''.join(lw)
    if rule == 'UPPERCASE':
        return ''.join(lw).upper()
    return name


def attr(attrs, key):
    for a in attrs:
        if a['key'] == key:
            return a.get('value') if a.get('value') is not None else True
    return None


class Shapes:
    def __init__(self, serde, prefer_dirs=()):
        self.types = {}
        for t in serde['types']:
            self.types.setdefault(t['name'], []).append(t)
        self.prefer = prefer_dirs

    def get(self, name, near=None):
        c = self.types.get(name, [])
        if not c:
            return None
        if len(c) == 1:
            return c[0]
        ser = [t for t in c if t['kind'] == 'alias' or any(d in ('Serialize', 'Deserialize') for d in t.get('derives', []))]
        if near:
            d = near.split('/')[0]
            same = [t for t in (ser or c) if t['file'].startswith(d + '/')]
            if same:
                return same[0]
        for p in self.prefer:
            same = [t for t in (ser or c) if t['file'].startswith(p)]
            if same:
                return same[0]
        return (ser or c)[0]

    def resolve_alias(self, tyname, near=None, depth=0):
        """expand type aliases: returns the written type string"""
        t = self.get(tyname, near)
        if t and t['kind'] == 'alias' and depth < 8:
            return t['ty'], t
        return None, t

    def field_type_names(self, ty, near=None):
        """type names mentioned by a written field type, aliases expanded"""
        out = []
        seen = set()
        todo = [ty]
        while todo:
            s = todo.pop()
            for w in words(s):
                if w in seen:
                    continue
                seen.add(w)
                t = self.get(w, near)
                if t is None:
                    out.append((w, None))
                elif t['kind'] == 'alias':
                    todo.append(t['ty'])
                    out.append((w, t))
                else:
                    out.append((w, t))
        return out

    def closure(self, roots, near=None):
        seen = {}
        todo = list(roots)
        while todo:
            n = todo.pop()
            if n in seen:
                continue
            t = self.get(n, near)
            if t is None or t['kind'] == 'alias':
                if t is not None:
                    for w, tt in self.field_type_names(t['ty'], t['file']):
                        if tt is not None and tt['kind'] != 'alias':
                            todo.append(w)
                continue
            seen[n] = t
            fields = t.get('fields', []) if t['kind'] == 'struct' else [f for v in t['variants'] for f in v['fields']]
            for f in fields:
                for w, tt in self.field_type_names(f['ty'], t['file']):
                    if tt is not None and tt['kind'] != 'alias':
                        todo.append(w)
        return seen

    def expands_to_universal(self, ty, near=None):
        for w, tt in self.field_type_names(ty, near):
            if w in UNIVERSAL or (tt is not None and tt['kind'] == 'alias' and any(x in UNIVERSAL for x in words(tt['ty']))):
                return True
        return False

    def is_maplike(self, ty, near=None):
        ws = [w for w, tt in self.field_type_names(ty, near)]
        return any(w in ('HashMap', 'BTreeMap', 'Map') for w in ws) or self.expands_to_universal(ty, near)

    def keys_of(self, t):
        """top-level JSON object keys a struct (or externally tagged enum, when flattened) can produce"""
        ra = attr(t['attrs'], 'rename_all')
        if t['kind'] == 'struct':
            out = []
            for f in t['fields']:
                if attr(f['attrs'], 'flatten'):
                    continue
                out.append(attr(f['attrs'], 'rename') or rename(f['name'], ra, False))
            return out
        return [attr(v['attrs'], 'rename') or rename(v['name'], ra, True) for v in t['variants']]


def lint(shapes, types, rep, rid, context):
    """runs the shape checks over `types` (name -> type fact); reports into rule `rid`"""
    n = 0
    for name, t in sorted(types.items()):
        where = f"{t['file']}:{t['line']}"
        cattrs = t['attrs']
        ra = attr(cattrs, 'rename_all')
        if t['kind'] == 'enum':
            n += 1
            problems = []
            if attr(cattrs, 'untagged'):
                problems.append('container is #[serde(untagged)]: variants are told apart by shape only')
            if attr(cattrs, 'tag') and not attr(cattrs, 'content'):
                # internally tagged: fine for struct variants, ambiguous with flatten; flag newtype variants of non-struct payloads
                for v in t['variants']:
                    if v['style'] in ('tuple',):
                        problems.append(f'internally tagged enum with tuple variant {v["name"]}')
            names = [attr(v['attrs'], 'rename') or rename(v['name'], ra, True) for v in t['variants']]
            if len(set(names)) != len(names):
                problems.append(f'variant names collide after renaming: {names}')
            tagged = [v for v in t['variants'] if not attr(v['attrs'], 'untagged')]
            for v in t['variants']:
                if attr(v['attrs'], 'untagged'):
                    payload = v['fields'][0]['ty'] if v['fields'] else ''
                    sib = [attr(x['attrs'], 'rename') or rename(x['name'], ra, True) for x in tagged]
                    if shapes.is_maplike(payload, t['file']):
                        rep.violation(rid, f'{name}::{v["name"]}', where, f'untagged variant {v["name"]}({payload}) can encode exactly like '
                                      f'the tagged sibling(s) {sib}: a plain value of the form {{"{sib[0] if sib else "?"}": ..}} decodes as '
                                      f'that sibling', key=f'{rid}/{name}/untagged-overlap/{v["name"]}',
                                      expected='disjoint encodings')
                    else:
                        rep.ok(rid, f'{name}::{v["name"]}', where, f'untagged payload {payload} cannot collide with {sib}')
            if problems:
                rep.violation(rid, name, where, '; '.join(problems), key=f'{rid}/{name}/' + '|'.join(p.split(':')[0] for p in problems))
            else:
                rep.ok(rid, name, where, f'externally tagged enum, {len(names)} distinct variant names ({context})')
            fields_iter = [(v['name'] + '.' + f['name'], f) for v in t['variants'] for f in v['fields']]
        else:
            n += 1
            names = shapes.keys_of(t)
            if len(set(names)) != len(names):
                rep.violation(rid, name, where, f'field names collide after renaming: {names}', key=f'{rid}/{name}/field-collision')
            else:
                rep.ok(rid, name, where, f'struct with {len(names)} distinct keys ({context})')
            fields_iter = [(f['name'], f) for f in t['fields']]
            # flatten
            for f in t['fields']:
                if attr(f['attrs'], 'flatten'):
                    inner_names = [w for w, tt in shapes.field_type_names(f['ty'], t['file']) if tt is not None and tt['kind'] != 'alias']
                    ft = shapes.get(inner_names[0], t['file']) if inner_names else None
                    if ft is None or shapes.is_maplike(f['ty'], t['file']):
                        rep.violation(rid, f'{name}.{f["name"]}', where, f'#[serde(flatten)] on {f["ty"]}, which is not a type with a '
                                      'finite set of keys', key=f'{rid}/{name}/flatten/{f["name"]}/open')
                        continue
                    if attr(ft['attrs'], 'untagged') or attr(ft['attrs'], 'tag'):
                        rep.violation(rid, f'{name}.{f["name"]}', where, f'flattened {ft["name"]} is not externally tagged',
                                      key=f'{rid}/{name}/flatten/{f["name"]}/tagging')
                        continue
                    inner = shapes.keys_of(ft)
                    clash = set(inner) & set(names)
                    if clash:
                        rep.violation(rid, f'{name}.{f["name"]}', where, f'flattened {ft["name"]} produces keys {sorted(clash)} that '
                                      f'{name} also uses', key=f'{rid}/{name}/flatten/{f["name"]}/clash')
                    else:
                        rep.ok(rid, f'{name}.{f["name"]}', where, f'flatten {ft["name"]}: keys {inner} disjoint from {names}')
        for fname, f in fields_iter:
            fa = f['attrs']
            ssi = attr(fa, 'skip_serializing_if')
            has_default = attr(fa, 'default') is not None or attr(cattrs, 'default') is not None
            is_opt = f['ty'].startswith('Option<')
            if ssi and not (is_opt or has_default):
                rep.violation(rid, f'{name}.{fname}', where, f'skip_serializing_if = "{ssi}" on non-Option field {f["ty"]} without '
                              'default: a skipped value cannot be decoded', key=f'{rid}/{name}/{fname}/skip_serializing_if')
            if (attr(fa, 'skip') or attr(fa, 'skip_serializing') or attr(fa, 'skip_deserializing')) and not (has_default or is_opt) \
                    and 'PhantomData' not in f['ty']:
                rep.violation(rid, f'{name}.{fname}', where, 'skipped field without default', key=f'{rid}/{name}/{fname}/skip')
            if attr(fa, 'with') or attr(fa, 'serialize_with') or attr(fa, 'deserialize_with'):
                sw, dw = attr(fa, 'serialize_with'), attr(fa, 'deserialize_with')
                if (sw is None) != (dw is None) and not attr(fa, 'with'):
                    rep.violation(rid, f'{name}.{fname}', where, 'one-sided custom (de)serializer', key=f'{rid}/{name}/{fname}/with')
            if re.search(r'\b(u128|i128)\b', f['ty']):
                rep.violation(rid, f'{name}.{fname}', where, '128-bit integer: not representable by serde_json numbers',
                              key=f'{rid}/{name}/{fname}/int128')
            nested = attr(fa, 'rename')
        for a in cattrs:
            if a['key'] == 'rename_all' and a.get('nested'):
                vals = {x['key']: x['value'] for x in a['nested']}
                if vals.get('serialize') != vals.get('deserialize'):
                    rep.violation(rid, name, where, f'rename_all differs between serialize and deserialize: {vals}',
                                  key=f'{rid}/{name}/rename_all-asymmetric')
        d = set(t.get('derives', []))
        if ('Serialize' in d) != ('Deserialize' in d) and context.startswith('wire'):
            rep.note(f'{name}: derives only one of Serialize/Deserialize')
    return n
