#!/bin/bash
# Builds the analysis tools and pre-warms the dependency metadata, offline.
set -e
cd "$(dirname "$0")"
export CARGO_NET_OFFLINE=true
(cd tools/wbfacts && cargo build --release --offline)
if [ -d tools/serdeshape ]; then (cd tools/serdeshape && cargo build --release --offline); fi
python3 -m wbcheck.facts --warm
