"""C19 — a node takes the leader role only with a quorum of distinct peers' votes (structural clauses)."""
from ..ir import callee, short, walk, ctor_name, pat_variants, guards, strip_not, conjuncts, AnchorMissing
from ..trace import Tracer, ok_exits, err_exits, base
from ..prov import Bindings
from .common import *

NOT_DECIDED = ('liveness (that an election terminates); behaviour under adversarial timing / message duplication by the network '
               'beyond the duplicate-vote filter; authenticity of UDP datagrams (a peer id in a message is believed)')

EL = "election::Election::<'a>"


def _quorum_cmp(e, b):
    """`self.votes_in_my_favor >= self.config.quorum`"""
    if e.get('k') != 'binary' or e.get('op') not in ('Ge', 'Le'):
        return False
    l, r = (e['l'], e['r']) if e['op'] == 'Ge' else (e['r'], e['l'])
    lo, ro = b.origins(l), b.origins(r)
    return lo == {'param(self).votes_in_my_favor'} and ro == {'param(self).config.quorum'}


def rule_a(prog, rep):
    rep.rule('C19.a', 'T2', 'the outcome is guarded: every construction of ElectionOutcome::Leader lies on the true edge of '
             '`self.votes_in_my_favor >= self.config.quorum` (operator and both operands checked)')
    crate = prog.crate(ORCH)
    n = 0
    for f in crate.top_fns():
        b = None
        for nd, anc in crate.walk_fn(f):
            cn = ctor_name(nd)
            if cn and cn.endswith('ElectionOutcome::Leader') and nd.get('k') == 'path':
                n += 1
                b = b or Bindings(crate, f)
                g = [it for it in guards(anc + (nd,)) if it[0] == 'if' and it[2] is True]
                if any(any(_quorum_cmp(c, b) for c in conjuncts(it[1])) for it in g) and f.path.startswith(EL):
                    rep.ok('C19.a', f'{short(f.path)}:Leader', loc(f, nd), 'under votes_in_my_favor >= config.quorum')
                else:
                    conds = [str(it[1].get('op')) for it in g]
                    rep.violation('C19.a', f'{f.path}:Leader', loc(f, nd), f'ElectionOutcome::Leader constructed without the quorum test '
                                  f'(enclosing conditions: {conds})', key=f'C19.a/{f.path}/unguarded-leader',
                                  expected='if self.votes_in_my_favor >= self.config.quorum')
    rep.floor('C19.a', n, 2, 'Leader outcome sites')


def rule_b(prog, rep):
    rep.rule('C19.b', 'T1+T2', 'counting: votes_in_my_favor is written only: 0 in Election::new; 1 (the own vote) in election_round '
             'before votes are requested; `+= 1` in process_vote_response after the early return for voters that are not (any '
             'more) in the candidate list and together with removing the voter from that list; saturating_sub(1) when another '
             'candidate is supported. The candidate list is rebuilt from self.peers.peer_nodes() in every round, after the '
             'counter was reset')
    crate = prog.crate(ORCH)
    n = 0
    for f in crate.top_fns():
        b = None
        for nd, anc in crate.walk_fn(f):
            is_w = nd.get('k') in ('assign', 'assignop') and nd['l'].get('k') == 'field' and nd['l']['name'] == 'votes_in_my_favor'
            is_init = nd.get('k') == 'struct' and 'election::Election' in (nd.get('path') or '')
            if not (is_w or is_init):
                continue
            n += 1
            b = b or Bindings(crate, f)
            name = short(f.path)
            if is_init:
                v = [x['e'] for x in nd['fields'] if x['name'] == 'votes_in_my_favor']
                if name == 'new' and v and b.origins(v[0]) == {'lit(0)'}:
                    rep.ok('C19.b', 'Election::new', loc(f, nd), 'votes_in_my_favor = 0')
                else:
                    rep.violation('C19.b', f'{f.path}:init', loc(f, nd), 'Election constructed with a non-zero count', key=f'C19.b/{f.path}/init')
                continue
            if nd.get('k') == 'assign':
                ro = b.origins(nd['r'])
                if name == 'election_round' and ro == {'lit(1)'}:
                    rep.ok('C19.b', 'election_round:self-vote', loc(f, nd), 'votes_in_my_favor = 1')
                elif name == 'process_vote_request' and nd['r'].get('k') == 'call' and short(callee(nd['r'])) == 'saturating_sub':
                    rep.ok('C19.b', 'process_vote_request:withdraw', loc(f, nd), 'saturating_sub(1) when supporting another candidate')
                else:
                    rep.violation('C19.b', f'{f.path}:=', loc(f, nd), f'votes_in_my_favor assigned from {sorted(ro)}', key=f'C19.b/{f.path}/assign')
            else:
                if name == 'process_vote_response' and nd.get('op') in ('Add', 'AddAssign') and nd['r'].get('k') == 'lit' and nd['r']['v'].get('v') == 1:
                    rep.ok('C19.b', 'process_vote_response:+=1', loc(f, nd), 'one vote per accepted response')
                else:
                    rep.violation('C19.b', f'{f.path}:op=', loc(f, nd), f'votes_in_my_favor changed with {nd.get("op")} {nd["r"].get("v")}',
                                  key=f'C19.b/{f.path}/assignop')
    rep.floor('C19.b', n, 4, 'counter write sites')
    # process_vote_response: contains-check, retain, increment
    f = crate.fn(f'{EL}::process_vote_response')
    b = Bindings(crate, f)

    def classify(nd, anc):
        k = nd.get('k')
        if k == 'call':
            sh = short(callee(nd))
            if sh == 'contains' and b.origins(nd['args'][0]) == {'param(peers)'}:
                return 'known?'
            if sh == 'retain' and b.origins(nd['args'][0]) == {'param(peers)'}:
                return 'strike'
        if k == 'assignop' and nd['l'].get('k') == 'field' and nd['l']['name'] == 'votes_in_my_favor':
            return 'count'
        return None
    paths = Tracer(crate, classify).run_fn(f)
    problems = []
    counted = [t for (ex, t, v) in paths if 'count' in t]
    if not counted:
        problems.append('no counting path')
    for t in counted:
        if 'known?' not in t or t.index('known?') > t.index('count'):
            problems.append('a vote is counted without checking that the voter is a (still uncounted) configured peer')
        if 'strike' not in t:
            problems.append('a counted voter is not removed from the candidate list (it could vote twice)')
    cont = [nd for nd, a in crate.walk_fn(f) if nd.get('k') == 'call' and short(callee(nd)) == 'contains']
    ifs = [nd for nd, a in crate.walk_fn(f) if nd.get('k') == 'if' and cont and any(x is cont[0] for x, _ in walk(nd['cond']))]
    if not ifs:
        problems.append('no early return for unknown voters')
    else:
        c, pol = strip_not(ifs[0]['cond'])
        ret = any(x.get('k') == 'return' for x, _ in walk(ifs[0]['then']))
        if pol or not ret:
            problems.append('unknown / duplicate voters are not rejected by `if !peers.contains(..) { return }`')
        if cont and b.origins(cont[0]['args'][1]) != {'param(vote).node_id'}:
            problems.append(f'membership tested for {sorted(b.origins(cont[0]["args"][1]))}')
    rt = [nd for nd, a in crate.walk_fn(f) if nd.get('k') == 'call' and short(callee(nd)) == 'retain']
    if rt:
        okr = False
        for a in rt[0]['args']:
            if a.get('k') == 'closure':
                body = crate.closure(a['def'])
                okr = any(x.get('k') == 'binary' and x.get('op') == 'Ne' and 'node_id' in str(x)[:500] for x, _ in walk(body.hir))
        if not okr:
            problems.append('the voter is not struck by `it != vote.node_id`')
    if problems:
        rep.violation('C19.b', 'process_vote_response', f.loc, '; '.join(sorted(set(problems))), key='C19.b/process_vote_response/' + '|'.join(sorted(set(problems))))
    else:
        rep.ok('C19.b', 'process_vote_response', f.loc, 'unknown / already counted voters return early; a counted voter is struck from the list')
    # election_round: reset, request, fresh candidate list
    er = crate.fn(f'{EL}::election_round')
    eb = Bindings(crate, er)

    def cl2(nd, anc):
        k = nd.get('k')
        if k == 'assign' and nd['l'].get('k') == 'field' and nd['l']['name'] == 'votes_in_my_favor':
            return 'reset'
        if k == 'call':
            c = callee(nd)
            if c == f'{EL}::request_votes':
                return 'request'
            if c == f'{EL}::process_peer_election_message':
                return 'process'
            if short(c) == 'peer_nodes':
                return 'peers'
        return None
    paths = Tracer(crate, cl2, max_paths=50000).run_fn(er)
    problems = []
    proc = [t for (ex, t, v) in paths if any(base(x) == 'process' for x in t)]
    if not proc:
        problems.append('anchor: no path processes peer messages')
    for t in proc:
        tb = [base(x) for x in t]
        i = tb.index('process')
        if 'reset' not in tb[:i] or 'request' not in tb[:i] or tb.index('reset') > tb.index('request'):
            problems.append('votes are processed without reset -> request_votes before')
            break
    # the candidate list: the local built from self.peers.peer_nodes() in this round (identified by provenance)
    lets = [nd for nd, a in crate.walk_fn(er) if nd.get('k') == 'let' and nd['pat'].get('k') == 'bind' and nd.get('init') is not None and
            any('peer_nodes' in x for x in eb.origins(nd['init']))]
    ids = {l['pat'].get('id') for l in lets}
    good_list = bool(lets)
    pc = crate.calls(er, lambda c: c == f'{EL}::process_peer_election_message')
    if not good_list or not pc or not any(x.get('k') == 'path' and x.get('id') in ids for x, _ in walk(pc[0][0]['args'][2])):
        problems.append('the candidate list handed to the vote counting is not rebuilt from self.peers.peer_nodes() in the round')
    if problems:
        rep.violation('C19.b', 'election_round', er.loc, '; '.join(sorted(set(problems))), key='C19.b/election_round/' + '|'.join(sorted(set(problems))))
    else:
        rep.ok('C19.b', 'election_round', er.loc, 'reset to the own vote, request votes, fresh candidate list, then count')


def rule_c(prog, rep):
    rep.rule('C19.c', 'call graph', 'votes count only after a request: process_vote_response is called only from '
             'process_peer_election_message, which is called only from election_round (after request_votes, C19.b); the waiting '
             'phases (support_other_candidates, wait_for_heartbeat) and the follower / leader loops ignore vote responses')
    crate = prog.crate(ORCH)
    callers = {}
    for f in crate.top_fns():
        for nd, a in crate.calls(f):
            callers.setdefault(callee(nd), set()).add(f.path)
    c1 = callers.get(f'{EL}::process_vote_response', set())
    c2 = callers.get(f'{EL}::process_peer_election_message', set())
    if c1 == {f'{EL}::process_peer_election_message'} and c2 == {f'{EL}::election_round'}:
        rep.ok('C19.c', 'process_vote_response:callers', '', 'election_round -> process_peer_election_message -> process_vote_response only')
    else:
        rep.violation('C19.c', 'process_vote_response:callers', '', f'callers: {sorted(c1)} <- {sorted(c2)}', key='C19.c/callers')
    # other receivers of Vote::Response do not count
    for name in (f'{EL}::support_other_candidates', f'{EL}::wait_for_heartbeat', 'follower::process_peer_message'):
        f = crate.fn(name)
        w = [nd for nd, a in crate.walk_fn(f) if nd.get('k') in ('assign', 'assignop') and 'votes_in_my_favor' in str(nd['l'])[:200]]
        ld = [nd for nd, a in crate.walk_fn(f) if ctor_name(nd) and (ctor_name(nd) or '').endswith('ElectionOutcome::Leader')]
        if w or ld:
            rep.violation('C19.c', short(name), f.loc, 'a phase that did not request votes counts votes / declares a leader', key=f'C19.c/{name}')
        else:
            rep.ok('C19.c', short(name), f.loc, 'vote responses are ignored here')


def rule_d(prog, rep):
    rep.rule('C19.d', 'T5/T7', 'quorum arithmetic: quorum_sanity_check uses node_count = peers.len() + 1, default quorum = node_count / 2 '
             '+ 1 (strict majority), rejects quorum > node_count; Config::update_quorum and the initial load store its result')
    crate = prog.crate(ORCH)
    f = crate.fn('config::quorum_sanity_check')
    b = Bindings(crate, f)
    all_lets = [nd for nd, a in crate.walk_fn(f) if nd.get('k') == 'let' and nd['pat'].get('k') == 'bind' and nd.get('init')]
    problems = []

    def plus_one(e, pred):
        if e.get('k') != 'binary' or e['op'] != 'Add':
            return False
        return (e['r'].get('k') == 'lit' and e['r']['v']['v'] == 1 and pred(e['l'])) or \
            (e['l'].get('k') == 'lit' and e['l']['v']['v'] == 1 and pred(e['r']))

    def is_local(e, let):
        return let is not None and e.get('k') == 'path' and e.get('res') == 'local' and e.get('id') == let['pat'].get('id')
    # locals are identified by what they are computed from, not by their names
    nc_let = next((l for l in all_lets if plus_one(l['init'], lambda x: x.get('k') == 'call' and short(callee(x)) == 'len' and
                                                    b.origins(x['args'][0]) == {'param(peers)'})), None)
    if nc_let is None:
        problems.append('node_count is not peers.len() + 1')
    rq_let = next((l for l in all_lets if plus_one(l['init'], lambda x: x.get('k') == 'binary' and x['op'] == 'Div' and
                                                    x['r'].get('k') == 'lit' and x['r']['v']['v'] == 2 and is_local(x['l'], nc_let))), None)
    if rq_let is None:
        problems.append('default quorum is not node_count / 2 + 1')

    def is_quorum_init(q):
        if q.get('k') == 'if' and q['cond'].get('k') == 'letcond' and 'else' in q:
            return b.origins(q['then']) == {'param(quorum)#Some.0'} and is_local(b_strip(q['else']), rq_let)
        if q.get('k') == 'call' and short(callee(q)) == 'unwrap_or' and len(q['args']) == 2:
            return b.origins(q['args'][0]) == {'param(quorum)'} and is_local(b_strip(q['args'][1]), rq_let)
        if q.get('k') == 'match' and len(q['arms']) == 2:
            bodies = [b_strip(a['body']) for a in q['arms']]
            return b.origins(q['scrut']) == {'param(quorum)'} and any(is_local(x, rq_let) for x in bodies) and \
                any(b.origins(x) == {'param(quorum)#Some.0'} for x in bodies)
        return False

    def b_strip(e):
        while isinstance(e, dict) and e.get('k') == 'block' and not e.get('stmts') and 'tail' in e:
            e = e['tail']
        return e
    q_let = next((l for l in all_lets if is_quorum_init(l['init'])), None)
    if q_let is None:
        problems.append('quorum is not `configured value or the default`')

    def too_high(c):
        c = b_strip(c)
        if c.get('k') != 'binary':
            return False
        return (c['op'] == 'Gt' and is_local(c['l'], q_let) and is_local(c['r'], nc_let)) or \
            (c['op'] == 'Lt' and is_local(c['l'], nc_let) and is_local(c['r'], q_let))
    tooh = [nd for nd, a in crate.walk_fn(f) if nd.get('k') == 'if' and too_high(nd['cond'])]
    if not tooh or not any(x.get('k') == 'return' for x, _ in walk(tooh[0]['then'])):
        problems.append('quorum > node_count is not rejected')
    oks = [nd for nd, a in crate.walk_fn(f) if nd.get('k') == 'call' and (ctor_name(nd) or '').endswith('Ok') and nd['args'] and
           b_strip(nd['args'][0]).get('k') == 'tuple']
    if not oks or not all(is_local(b_strip(o['args'][0])['elems'][0], q_let) for o in oks):
        problems.append('the returned quorum is not the checked one')
    if problems:
        rep.violation('C19.d', 'quorum_sanity_check', f.loc, '; '.join(problems), key='C19.d/' + '|'.join(problems))
    else:
        rep.ok('C19.d', 'quorum_sanity_check', f.loc, 'node_count = peers + 1; default = node_count / 2 + 1; quorum > node_count -> Err')
    u = crate.fn('config::Config::update_quorum')
    ub = Bindings(crate, u)
    asg = [nd for nd, a in crate.walk_fn(u) if nd.get('k') == 'assign' and nd['l'].get('k') == 'field' and nd['l']['name'] == 'quorum']
    qc = crate.calls(u, lambda c: c == 'config::quorum_sanity_check')
    if len(asg) == 1 and any('quorum_sanity_check' in x and x.endswith('[0]') for x in ub.origins(asg[0]['r'])) and len(qc) == 1 and \
            ub.origins(qc[0][0]['args'][0]) == {'param(self).quorum_configured'} and any('peer_nodes' in x or 'param(peers)' in x for x in ub.origins(qc[0][0]['args'][1])):
        rep.ok('C19.d', 'Config::update_quorum', u.loc, 'quorum <- quorum_sanity_check(configured, current peers).0')
    else:
        rep.violation('C19.d', 'Config::update_quorum', u.loc, 'the quorum is not recomputed from the configured value and the current peers',
                      key='C19.d/update_quorum')
    # every peers change re-computes the quorum: wherever the election replaces its peer set (`*self.peers = ..`), the same
    # function goes on to Config::update_quorum(..)? on every path (the pairing may live in election_round or in a helper of it)
    def is_peers_set(nd):
        return nd.get('k') == 'assign' and nd['l'].get('k') == 'unary' and nd['l'].get('op') == 'Deref' and \
            nd['l']['e'].get('k') == 'field' and nd['l']['e']['name'] == 'peers'

    def cl_peers(nd, anc):
        if is_peers_set(nd):
            return 'set'
        if nd.get('k') == 'call' and callee(nd) == 'config::Config::update_quorum':
            return 'upd'
        return None
    n_sites, bad_fn = 0, None
    for g in crate.top_fns():
        if not g.path.startswith(EL + '::'):
            continue
        sets = [nd for nd, a in crate.walk_fn(g) if is_peers_set(nd)]
        if not sets:
            continue
        n_sites += len(sets)
        for (ex, t, v) in Tracer(crate, cl_peers, inline_local=False).run_fn(g):
            tb = [base(x) for x in t if '@' not in x]
            for i, x in enumerate(tb):
                if x == 'set' and 'upd' not in tb[i + 1:]:
                    bad_fn = g
    er = crate.fn(f'{EL}::election_round')
    if n_sites and bad_fn is None:
        rep.ok('C19.d', 'election_round:peers-change', er.loc, f'{n_sites} peer-set update(s), each followed by update_quorum on every path')
    else:
        rep.violation('C19.d', 'election_round:peers-change', (bad_fn or er).loc, f'{n_sites} peer-set updates; one is not followed by update_quorum',
                      key='C19.d/election_round/update_quorum')


def rule_e(prog, rep):
    rep.rule('C19.e', 'T2/T7', 'follower only towards a configured peer that announced itself: ElectionOutcome::Follower is constructed '
             'only in arms matching PeerMessage::Heartbeat(Heartbeat::Request(h)), with that h; during the passive phase only '
             'under is_part_of_cluster(h.node_id); follow() starts the server only on the Some edge of '
             'peers.sync_addr(leader_heartbeat.node_id)')
    crate = prog.crate(ORCH)
    n = 0
    for f in crate.top_fns():
        b = None
        for nd, anc in crate.walk_fn(f):
            cn = ctor_name(nd)
            if cn and cn.endswith('ElectionOutcome::Follower') and nd.get('k') == 'call':
                n += 1
                b = b or Bindings(crate, f)
                arms = [it for it in guards(anc + (nd,)) if it[0] == 'match']
                ptxt = str(arms[-1][2]['pat']) if arms else ''
                hb = 'Heartbeat::Request' in ptxt and 'PeerMessage::Heartbeat' in ptxt
                o = b.origins(nd['args'][0])
                from_arm = all('#Heartbeat.0#Request.0' in x or '#Request' in x for x in o)
                name = short(f.path)
                member = True
                if name == 'support_other_candidates':
                    g = [it for it in guards(anc + (nd,)) if it[0] == 'if' and it[2] is True]
                    member = any(it[1].get('k') == 'call' and short(callee(it[1])) == 'is_part_of_cluster' for it in g)
                if hb and from_arm and member:
                    rep.ok('C19.e', f'{name}:Follower', loc(f, nd), 'from a Heartbeat::Request' + (' of a cluster member' if name == 'support_other_candidates' else ''))
                else:
                    rep.violation('C19.e', f'{f.path}:Follower', loc(f, nd), f'heartbeat-request arm={hb}, payload from that message={from_arm}, '
                                  f'membership test={member}', key=f'C19.e/{f.path}/follower-outcome')
    rep.floor('C19.e', n, 2, 'Follower outcome sites')
    ip = crate.fn(f'{EL}::is_part_of_cluster')
    ib = Bindings(crate, ip)
    cmps = [nd for nd, a in crate.walk_fn(ip) if nd.get('k') == 'binary' and nd.get('op') == 'Eq']
    over_loop = any('peer_nodes' in x for nd, a in crate.walk_fn(ip) if nd.get('k') == 'for' for x in ib.origins(nd['iter']))
    over_any = any(nd.get('k') == 'call' and short(callee(nd)) in ('any', 'contains') and any('peer_nodes' in x for x in ib.origins(nd['args'][0]))
                   for nd, a in crate.walk_fn(ip))
    if len(cmps) >= 2 and (over_loop or over_any):
        rep.ok('C19.e', 'is_part_of_cluster', ip.loc, 'own id or one of self.peers.peer_nodes()')
    else:
        rep.violation('C19.e', 'is_part_of_cluster', ip.loc, 'membership is not decided by the configured peers', key='C19.e/is_part_of_cluster')
    fo = crate.fn('follower::follow')
    fb = Bindings(crate, fo)

    def classify(nd, anc):
        if nd.get('k') != 'call':
            return None
        sh = short(callee(nd))
        if sh == 'sync_addr':
            return 'lookup'
        if sh == 'restart':
            return 'start'
        return None
    paths = Tracer(crate, classify, max_paths=50000).run_fn(fo)
    bad = [t for (ex, t, v) in paths if 'start' in [base(x) for x in t] and 'lookup@Some' not in t]
    none_starts = [t for (ex, t, v) in paths if 'lookup@None' in t and 'start' in [base(x) for x in t]]
    if bad or none_starts or not any('start' in [base(x) for x in t] for (ex, t, v) in paths):
        rep.violation('C19.e', 'follow', fo.loc, 'the follower server can be started without a configured sync address of the announced leader',
                      key='C19.e/follow/unguarded-start')
    else:
        rep.ok('C19.e', 'follow', fo.loc, 'server started only when peers.sync_addr(leader) is Some; unknown leader -> return')


def rule_f(prog, rep):
    rep.rule('C19.f', 'T4', 'role <-> outcome: the orchestrator main loop maps ElectionOutcome::Leader to lead(..) and Follower(h) to '
             'follow(.., h); Cancelled ends the loop; no other code calls lead / follow')
    crate = prog.crate(ORCH)
    mains = [f for f in crate.top_fns() if crate.calls(f, lambda c: c == 'election::elect_leader')]
    if len(mains) != 1:
        raise AnchorMissing(f'the function calling elect_leader ({len(mains)})')
    f = mains[0]
    b = Bindings(crate, f)
    ms = [nd for nd, a in crate.walk_fn(f) if nd.get('k') == 'match' and str(nd.get('scrut_ty')).lstrip('&').endswith('election::ElectionOutcome')]
    if len(ms) != 1:
        raise AnchorMissing('match over ElectionOutcome')
    want = {'Leader': 'leader::lead', 'Follower': 'follower::follow'}
    for arm in ms[0]['arms']:
        for v in pat_variants(arm['pat']):
            sv = short(v)
            cs = {callee(nd) for nd, a in walk(arm['body']) if nd.get('k') == 'call' and callee(nd) in want.values()}
            for nd, a in walk(arm['body']):
                if nd.get('k') == 'closure':
                    c = crate.closure(nd['def'])
                    cs |= {callee(x) for x, _ in walk(c.hir) if x.get('k') == 'call' and callee(x) in want.values()}
            if sv in want:
                if cs == {want[sv]}:
                    extra = ''
                    if sv == 'Follower':
                        fc = [x for x, _ in crate.walk_fn(f) if x.get('k') == 'call' and callee(x) == 'follower::follow']
                        if not fc or not all('#Follower' in o for o in b.origins(fc[0]['args'][4])):
                            rep.violation('C19.f', f'outcome:{sv}', f'{f.file}:{arm.get("ln")}', 'follow is not given the heartbeat of the outcome',
                                          key='C19.f/Follower/heartbeat')
                            continue
                        extra = ' with the outcome\'s heartbeat'
                    rep.ok('C19.f', f'outcome:{sv}', f'{f.file}:{arm.get("ln")}', f'-> {want[sv]}{extra}')
                else:
                    rep.violation('C19.f', f'outcome:{sv}', f'{f.file}:{arm.get("ln")}', f'-> {sorted(cs)}', key=f'C19.f/{sv}', expected=want[sv])
            elif cs:
                rep.violation('C19.f', f'outcome:{sv}', f'{f.file}:{arm.get("ln")}', f'{sv} starts {sorted(cs)}', key=f'C19.f/{sv}/starts')
    for fn_ in crate.top_fns():
        if fn_.path == f.path:
            continue
        for nd, a in crate.calls(fn_, lambda c: c in want.values()):
            rep.violation('C19.f', f'{fn_.path}->{short(callee(nd))}', loc(fn_, nd), 'role entered outside the outcome dispatch',
                          key=f'C19.f/{fn_.path}/{short(callee(nd))}')


RULES = [('C19.a', rule_a), ('C19.b', rule_b), ('C19.c', rule_c), ('C19.d', rule_d), ('C19.e', rule_e), ('C19.f', rule_f)]
