"""Shared slot fillers: names of the repository's functions / types the rules are anchored on."""
from ..ir import callee, short, walk, ctor_name

WB = 'worterbuch'
COMMON = 'worterbuch_common'
CLIENT = 'worterbuch_client'
ORCH = 'worterbuch_cluster_orchestrator'

V0 = 'server::common::protocol::v0::V0'
V1 = 'server::common::protocol::v1::V1'
PROTO = 'server::common::protocol::Proto'
CORE = 'worterbuch::Worterbuch'
STORE = 'store::Store'

V0_HANDLERS = ['get', 'pget', 'set', 'spub_init', 'spub', 'publish', 'subscribe', 'psubscribe', 'unsubscribe',
               'delete', 'pdelete', 'ls', 'pls', 'subscribe_ls', 'unsubscribe_ls']
V1_HANDLERS = ['cget', 'cset', 'lock', 'acquire_lock', 'release_lock']


def handlers(crate):
    out = []
    for h in V0_HANDLERS:
        out.append((f'V0::{h}', crate.fn(f'{V0}::{h}')))
    for h in V1_HANDLERS:
        out.append((f'V1::{h}', crate.fn(f'{V1}::{h}')))
    return out


def is_mpsc_send(name):
    return name.endswith('mpsc::Sender::<T>::send') or name.endswith('mpsc::Sender::<T>::try_send') \
        or name.endswith('mpsc::Sender::<T>::send_timeout') or name.endswith('mpsc::UnboundedSender::<T>::send')


def is_spawn(name):
    return short(name) in ('spawn', 'spawn_blocking', 'spawn_local') and ('tokio' in name or 'task' in name or
                                                                          'Subsystem' in name or 'subsys' in name.lower())


def server_message_sent(call, binds):
    """if `call` is `<mpsc sender>.send(ServerMessage::X(..))` return (X, payload expr) else None"""
    if call.get('k') != 'call' or not is_mpsc_send(callee(call)) or len(call['args']) < 2:
        return None
    arg = binds.deref_local(call['args'][1]) if binds else call['args'][1]
    c = ctor_name(arg) if isinstance(arg, dict) else None
    if c and 'ServerMessage::' in c:
        payload = arg['args'][0] if arg.get('k') == 'call' and arg['args'] else None
        return short(c), payload
    return None


def loc(f, n=None):
    if n is not None and n.get('ln'):
        return f'{f.file}:{n["ln"]}'
    return f.loc


def enum_variants(crate, path):
    a = crate.adt(path)
    return [v['name'] for v in a['variants']]


def deep_text(crate, e):
    """textual dump of an expression including the bodies of the closures it mentions (for literal / name lookups)"""
    out = [str(e)]
    seen = set()
    stack = [e]
    while stack:
        x = stack.pop()
        for nd, a in walk(x):
            if nd.get('k') == 'closure' and nd['def'] not in seen:
                seen.add(nd['def'])
                c = crate.closure(nd['def'])
                if c is not None:
                    out.append(str(c.hir))
                    stack.append(c.hir)
    return ' '.join(out)


class Proxy:
    """re-evaluates rules of a sibling property under another rule id, so that a breach is reported under both properties"""

    def __init__(self, rep, to):
        self.rep, self.to = rep, to

    def rule(self, rid, t, text):
        pass

    def ok(self, rid, inst, loc_='', detail=''):
        self.rep.ok(self.to, f'{rid}:{inst}', loc_, detail)

    def violation(self, rid, inst, loc_='', detail='', key=None, expected=''):
        self.rep.violation(self.to, f'{rid}:{inst}', loc_, detail, key=(key or f'{rid}/{inst}').replace(rid, self.to + '/' + rid, 1),
                           expected=expected)

    def floor(self, rid, found, minimum, what):
        self.rep.floor(self.to, found, minimum, f'{rid} {what}')

    def anchor_missing(self, rid, e):
        self.rep.anchor_missing(self.to, e)

    def note(self, t):
        self.rep.note(t)

    @property
    def analysed(self):
        return self.rep.analysed
