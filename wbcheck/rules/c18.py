"""C18 — incremental (ReDB) persistence recovers a prefix of what was applied (structural clauses)."""
import re
from ..ir import callee, short, walk, ctor_name, pat_variants, guards, AnchorMissing
from ..trace import Tracer, ok_exits, err_exits, base
from ..prov import Bindings, calls_via_helpers
from ..tables import NoMatch
from .common import *
from .corefx import core_paths, mutation_effective
from . import c02

NOT_DECIDED = ('the cut points of redb\'s transactions (trusted base: a committed write transaction is atomic and durable); '
               'the timing of the batching; what a crash between queueing and commit loses (a suffix, by C18.a/b)')

REDB = 'persistence::redb'


def rule_a(prog, rep):
    rep.rule('C18.a', 'T3', 'every accepted change is queued, in order: in Worterbuch::{set,cset,delete,internal_pdelete,import} '
             'each effective store mutation is followed, before the function returns Ok and before subscribers are told, by '
             'update_value / delete_value for the same key; the persisted entry is built from the request value')
    crate = prog.crate(WB)
    n = 0
    want = {'set': 'persist:update', 'cset': 'persist:update', 'delete': 'persist:delete'}
    for fname, ev in want.items():
        f, paths = core_paths(prog, fname)
        b = Bindings(crate, f)
        bad = None
        cnt = 0
        for (ex, t, v) in ok_exits(paths):
            i = mutation_effective(t)
            if i < 0:
                continue
            cnt += 1
            tb = [base(x) for x in t[i:]]
            if tb.count(ev) != 1 or ('notify' in tb and tb.index('notify') < tb.index(ev)):
                bad = t
        n += 1
        pc = calls_via_helpers(crate, f, lambda c: c.endswith('PersistentStorageImpl::update_value') or c.endswith('PersistentStorageImpl::delete_value'))
        key_ok = len(pc) == 1 and pc[0][3](pc[0][0]['args'][1]) == {'param(key)'}
        if bad is not None or cnt == 0:
            rep.violation('C18.a', f'Worterbuch::{fname}', f.loc, f'Ok path on which the change is not queued exactly once before '
                          f'notification: {list(bad) if bad else "no effective mutation path"}', key=f'C18.a/{fname}/queue')
        elif not key_ok:
            rep.violation('C18.a', f'Worterbuch::{fname}', f.loc, 'the persisted key is not the request key', key=f'C18.a/{fname}/key')
        else:
            rep.ok('C18.a', f'Worterbuch::{fname}', loc(pc[0][2], pc[0][0]), f'{cnt} Ok paths queue the change once, for the request key, before notifying')
    for fname, mut, ev in (('internal_pdelete', 'delete_matches', 'persist:delete'), ('import', 'merge', 'persist:update')):
        f = crate.fn(f'{CORE}::{fname}')
        b = Bindings(crate, f)
        pc = crate.calls(f, lambda c: c.endswith('PersistentStorageImpl::update_value') or c.endswith('PersistentStorageImpl::delete_value'))
        n += 1
        good = len(pc) == 1 and any(a.get('k') == 'for' for a in pc[0][1]) and \
            any(f'call({STORE}::{mut})' in x for x in b.origins(pc[0][0]['args'][1]))
        if good:
            rep.ok('C18.a', f'Worterbuch::{fname}', loc(f, pc[0][0]), f'queues every key of the Store::{mut} result inside the loop')
        else:
            rep.violation('C18.a', f'Worterbuch::{fname}', f.loc, 'does not queue each changed key of the mutator result',
                          key=f'C18.a/{fname}/queue')
    rep.floor('C18.a', n, 5, 'persisting core functions')
    # the redb back end forwards every change as the same-named StoreAction
    for m, act in (('update_value', 'Update'), ('delete_value', 'Delete'), ('update_grave_goods', 'UpdateGraveGoods'),
                   ('update_last_will', 'UpdateLastWill')):
        cands = [f for f in crate.top_fns() if 'redb::PersistentRedbStore as' in f.path and short(f.path) == m]
        if len(cands) != 1:
            rep.violation('C18.a', f'redb::{m}', '', f'anchor: {len(cands)} candidates', key=f'C18.a/redb/{m}/anchor')
            continue
        f = cands[0]
        ctors = [short(ctor_name(nd)) for nd, a in crate.walk_fn(f) if ctor_name(nd) and 'StoreAction::' in ctor_name(nd)]
        if ctors == [act]:
            rep.ok('C18.a', f'redb::{m}', f.loc, f'sends StoreAction::{act}')
        else:
            rep.violation('C18.a', f'redb::{m}', f.loc, f'sends {ctors}', key=f'C18.a/redb/{m}/action', expected=act)


def rule_b(prog, rep):
    rep.rule('C18.b', 'T4', 'the writer keeps order and loses nothing: batch_process applies Update / Delete in try_recv order to the '
             'open table; any other action is stored in next_action and ends the batch; run consumes next_action before '
             'receiving a new action; each StoreAction has its own arm in run')
    crate = prog.crate(WB)
    f = crate.fn(f'{REDB}::batch_process')
    b = Bindings(crate, f)
    ms = [nd for nd, a in crate.walk_fn(f) if nd.get('k') == 'match' and str(nd.get('scrut_ty')).lstrip('&').endswith('redb::StoreAction')]
    if len(ms) != 1:
        raise AnchorMissing('match over StoreAction in batch_process')
    m = ms[0]
    inloop = [nd for nd, a in crate.walk_fn(f) if nd.get('k') == 'loop' and any(x is m for x, _ in walk(nd))]
    src_ok = any('try_recv' in x for x in b.origins(m['scrut']))
    seen = {}
    for arm in m['arms']:
        for v in pat_variants(arm['pat']):
            seen[short(v)] = arm
    res = []
    for var, meth in (('Update', 'insert'), ('Delete', 'remove')):
        arm = seen.get(var)
        if not arm:
            res.append(f'{var}: no arm')
            continue
        calls = [nd for nd, a in walk(arm['body']) if nd.get('k') == 'call' and short(callee(nd)) == meth and 'Table' in callee(nd)]
        if len(calls) != 1:
            res.append(f'{var}: {len(calls)} table.{meth} calls')
            continue
        o = b.origins(calls[0]['args'][1])
        if not any(f'#{var}.0' in x or f'#{var}' in x for x in o):
            res.append(f'{var}: table.{meth} key <- {sorted(o)}')
        if var == 'Update' and not any(f'#{var}.1' in x for x in b.origins(calls[0]['args'][2])):
            res.append('Update: value operand is not the action\'s value')
        if any(x.get('k') in ('break', 'return') for x, _ in walk(arm['body'])):
            res.append(f'{var}: arm leaves the batch')
    other = seen.get('_')
    if not other:
        res.append('no arm for the remaining actions')
    else:
        asg = [nd for nd, a in walk(other['body']) if nd.get('k') == 'assign']
        keeps = any('next_action' in str(a['l'])[:300] and ctor_name(a['r']) and short(ctor_name(a['r'])) == 'Some' for a in asg)
        brk = any(x.get('k') == 'break' for x, _ in walk(other['body']))
        if not keeps:
            res.append('the action that ends the batch is not kept in next_action (it would be lost)')
        if not brk:
            res.append('the batch continues past a non-batchable action (reordering)')
    if not inloop or not src_ok:
        res.append('actions are not taken from rx.try_recv() in a loop')
    # every action taken off the channel is consumed: applied to the table or kept in next_action
    def clb(nd, anc):
        k = nd.get('k')
        if k == 'call':
            c = callee(nd)
            if short(c) == 'try_recv':
                return 'take'
            if short(c) in ('insert', 'remove') and 'Table' in c:
                return 'apply'
        if k == 'assign' and 'next_action' in str(nd['l'])[:300]:
            return 'keep'
        return None
    if inloop:
        trb = Tracer(crate, clb)
        trb.env = {}
        for (ex, t, v) in trb.expr(inloop[0]['body']):
            tb = [base(x) for x in t]
            if 'take@Ok' in tb and 'apply' not in tb and 'keep' not in tb:
                res.append('an action is taken from the channel and then dropped (neither applied nor kept in next_action): ' + str(tb))
    if res:
        rep.violation('C18.b', 'batch_process', f.loc, '; '.join(res), key='C18.b/batch_process/' + '|'.join(r.split(':')[0] for r in res))
    else:
        rep.ok('C18.b', 'batch_process', f.loc, 'Update/Delete applied in arrival order; anything else -> next_action + break')
    # run: next_action first
    r = crate.fn(f'{REDB}::run')

    def classify(nd, anc):
        if nd.get('k') != 'call':
            return None
        c = callee(nd)
        if short(c) == 'take' and 'Option' in c:
            return 'take'
        if short(c) == 'recv' and 'mpsc' in c:
            return 'recv'
        return None
    loops = [nd for nd, a in crate.walk_fn(r) if nd.get('k') == 'loop']
    tr = Tracer(crate, classify)
    tr.env = {}
    body = tr.expr(loops[0]['body']) if loops else set()
    bad = [t for (ex, t, v) in body if 'recv' in t and ('take' not in t or t.index('take') > t.index('recv') or 'take@Some' in t)]
    some_paths = [t for (ex, t, v) in body if 'take@Some' in t]
    if loops and not bad and some_paths and any('recv' in t for (ex, t, v) in body):
        rep.ok('C18.b', 'run:next_action-first', r.loc, 'a pending next_action is processed before anything is received')
    else:
        rep.violation('C18.b', 'run:next_action-first', r.loc, f'run may receive a new action while one is pending: {bad[:1]}',
                      key='C18.b/run/next_action-first')
    ms = [nd for nd, a in crate.walk_fn(r) if nd.get('k') == 'match' and str(nd.get('scrut_ty')).lstrip('&').endswith('redb::StoreAction')]
    variants = enum_variants(crate, f'{REDB}::StoreAction')
    if ms:
        seen = {short(v) for arm in ms[0]['arms'] for v in pat_variants(arm['pat'])}
        table = {'Update': 'update_value', 'Delete': 'delete_value', 'UpdateLastWill': 'update_last_will',
                 'UpdateGraveGoods': 'update_grave_goods', 'Flush': 'flush', 'Clear': 'clear', 'Load': 'load'}
        for v in variants:
            arm = [a for a in ms[0]['arms'] if v in {short(x) for x in pat_variants(a['pat'])}]
            if not arm:
                rep.violation('C18.b', f'run:{v}', r.loc, 'no explicit arm', key=f'C18.b/run/{v}/missing')
                continue
            want = table.get(v)
            if want:
                cs = {short(callee(nd)) for nd, a in walk(arm[0]['body']) if nd.get('k') == 'call' and callee(nd).startswith(REDB)}
                if want in cs:
                    rep.ok('C18.b', f'run:{v}', f'{r.file}:{arm[0].get("ln")}', f'-> {want}')
                else:
                    rep.violation('C18.b', f'run:{v}', f'{r.file}:{arm[0].get("ln")}', f'arm calls {sorted(cs)}', key=f'C18.b/run/{v}', expected=want)
    else:
        raise AnchorMissing('match over StoreAction in run')


def rule_c(prog, rep):
    rep.rule('C18.c', 'T3', 'transaction pairing: in every function of the redb back end each begin_write() is followed by commit() '
             'on every path that returns Ok, and nothing is sent/answered between them')
    crate = prog.crate(WB)
    n = 0
    for f in crate.top_fns():
        if not f.path.startswith(REDB):
            continue
        if not crate.calls(f, lambda c: short(c) == 'begin_write'):
            continue

        def classify(nd, anc):
            if nd.get('k') != 'call':
                return None
            sh = short(callee(nd))
            if sh == 'begin_write':
                return 'begin'
            if sh == 'commit' and 'WriteTransaction' in callee(nd):
                return 'commit'
            return None
        paths = Tracer(crate, classify).run_fn(f)
        bad = [t for (ex, t, v) in ok_exits(paths) if [base(x) for x in t].count('begin') != [base(x) for x in t].count('commit')
               or ('begin' in t and t.index('begin') > t.index('commit'))]
        n += 1
        if bad:
            rep.violation('C18.c', short(f.path), f.loc, f'Ok path with an uncommitted write transaction: {list(bad[0])}',
                          key=f'C18.c/{short(f.path)}/uncommitted')
        else:
            rep.ok('C18.c', short(f.path), f.loc, 'begin_write .. commit on every Ok path')
    rep.floor('C18.c', n, 7, 'functions opening a write transaction')


def rule_d(prog, rep):
    rep.rule('C18.d', 'T2', 'load order: restore_entries, then apply_pending_grave_goods, then apply_pending_last_wills, then '
             'commit, then the store is handed out; the pending registrations are deleted in the same transaction')
    crate = prog.crate(WB)
    f = crate.fn(f'{REDB}::load')
    order = ['restore_entries', 'begin_write', 'apply_pending_grave_goods', 'apply_pending_last_wills', 'commit', 'with_store']

    def classify(nd, anc):
        if nd.get('k') != 'call':
            return None
        sh = short(callee(nd))
        return sh if sh in order else None
    paths = Tracer(crate, classify).run_fn(f)
    oks = ok_exits(paths)
    bad = [t for (ex, t, v) in oks if [x for x in t if x in order] != order]
    if oks and not bad:
        rep.ok('C18.d', 'load', f.loc, ' -> '.join(order))
    else:
        rep.violation('C18.d', 'load', f.loc, f'load sequence is {[x for x in (bad[0] if bad else ())]}', key='C18.d/load/order',
                      expected=' -> '.join(order))
    for g, tbl in (('apply_pending_grave_goods', 'TABLE_GRAVE_GOODS'), ('apply_pending_last_wills', 'TABLE_LAST_WILL')):
        gf = crate.fn(f'{REDB}::{g}')
        dels = [nd for nd, a in crate.calls(gf, lambda c: short(c) == 'delete_table')]
        if len(dels) == 1 and tbl in str(dels[0]['args'])[:500]:
            rep.ok('C18.d', g, gf.loc, f'applies every entry, then deletes {tbl} in the same transaction')
        else:
            rep.violation('C18.d', g, gf.loc, 'pending registrations are not cleared with the transaction', key=f'C18.d/{g}/delete_table')


def rule_e(prog, rep):
    rep.rule('C18.e', 'T6+T5', 'writer/reader version agreement: the entry a cset stores (decision table of Store::insert: Cas(v+1)), '
             'the entry it persists (operand of update_value in Worterbuch::cset) and the entry a restart restores (the forced '
             'insert of restore_entries into an empty node) must compose to the identity on (value, version)')
    crate = prog.crate(WB)
    try:
        fi, m, table = c02.insert_table(crate)
    except NoMatch as e:
        rep.violation('C18.e', 'Store::insert', '', f'unrecognised-shape: {e}', key='C18.e/unrecognised-shape')
        return
    stored = table[('Cas', 'Cas', ('nonzero', 'eq'), False)]
    restored = table[('None', 'Cas', ('nonzero', None), True)]
    f = crate.fn(f'{CORE}::cset')
    b = Bindings(crate, f)
    pc = crate.calls(f, lambda c: c.endswith('PersistentStorageImpl::update_value'))
    pv = None
    if len(pc) == 1:
        ent = b.deref_local(pc[0][0]['args'][2])
        if ctor_name(ent) and ctor_name(ent).endswith('ValueEntry::Cas'):
            o = b.origins(ent['args'][1])
            pv = 'V' if o == {'param(version)'} else str(sorted(o))
    r = crate.fn(f'{REDB}::restore_entries')
    rc = crate.calls(r, lambda c: c == f'{STORE}::insert')
    rb = Bindings(crate, r)
    forced = len(rc) == 1 and rb.origins(rc[0][0]['args'][3]) == {'lit(True)'}
    sv = stored[3][1] if stored[0] == 'Ok' and stored[3][0] == 'Cas' else str(stored)
    rv = restored[3][1] if restored[0] == 'Ok' and restored[3][0] == 'Cas' else str(restored)
    detail = f'stored version = {sv}; persisted version = {pv}; restore of a persisted Cas(p) into an empty node (force={forced}) = Cas({rv})'
    if sv == pv and rv == 'V':
        rep.ok('C18.e', 'cset-version-roundtrip', loc(f, pc[0][0]), detail)
    else:
        rep.violation('C18.e', 'cset-version-roundtrip', f.loc, detail + ' -- CAS versions are not preserved across a restart',
                      key=f'C18.e/stored={sv}/persisted={pv}/restored={rv}', expected='stored == persisted and restored == persisted')


def rule_f(prog, rep):
    rep.rule('C18.f', 'T3', 'one registration that cannot be applied does not cost the database: in the redb loader the loops of '
             'apply_grave_good / apply_last_will (and the table loops of apply_pending_grave_goods / apply_pending_last_wills) are '
             'left early only by database errors - the result of a store-level call on client-supplied text '
             '(Store::delete_matches, parse_segments, Store::insert_plain: IllegalMultiWildcard, IllegalWildcard, ..) is handled '
             'inside the iteration, never propagated with `?` (load would fail, the server would start empty and, the '
             'transaction not being committed, do so on every later start)')
    crate = prog.crate(WB)
    client_text_calls = (f'{STORE}::delete_matches', f'{STORE}::insert_plain', f'{STORE}::insert', f'{STORE}::insert_cas')
    n = 0
    for fname in ('apply_grave_good', 'apply_last_will'):
        f = crate.fn(f'{REDB}::{fname}')
        loops = [nd for nd, a in crate.walk_fn(f) if nd.get('k') == 'for']
        if not loops:
            raise AnchorMissing(f'loop in {fname}')
        bad = []
        for nd, anc in walk(loops[0]['body']):
            if nd.get('k') != 'try':
                continue
            inner = nd['e']
            while inner.get('k') in ('await',):
                inner = inner['e']
            if inner.get('k') == 'call':
                c = callee(inner)
                if c in client_text_calls or c.endswith('parse_segments') or c.endswith('KeySegment::parse'):
                    bad.append(short(c))
        n += 1
        if bad:
            rep.violation('C18.f', fname, f.loc, f'`?` on {sorted(set(bad))} inside the loop: one entry that cannot be applied aborts the load',
                          key=f'C18.f/{fname}/' + '|'.join(sorted(set(bad))), expected='log and skip the entry (as the JSON loader and the live disconnect path do)')
        else:
            rep.ok('C18.f', fname, f.loc, 'store-level failures of one entry are handled inside the iteration; only database errors propagate')
    rep.floor('C18.f', n, 2, 'registration application loops')


def rule_g(prog, rep):
    rep.rule('C18.g', 'T3+T7', 'the change that opens a batch is written first and errors are not swallowed: update_value writes '
             'table.insert(key, value)? and delete_value table.remove(key)? into the opened table before batch_process(..)? and '
             'commit()?; restore_entries inserts every table entry into the store (store.insert(parse_segments(key), value, '
             'force = true)?); apply_last_will applies each entry to the store AND to the table')
    crate = prog.crate(WB)
    for fname, op in (('update_value', 'insert'), ('delete_value', 'remove')):
        f = crate.fn(f'{REDB}::{fname}')
        b = Bindings(crate, f)

        def classify(nd, anc, op=op):
            if nd.get('k') != 'call':
                return None
            c = callee(nd)
            if 'redb::' in c and short(c) == op and 'Table' in c:
                return 'op'
            if c == f'{REDB}::batch_process':
                return 'batch'
            if short(c) == 'commit' and 'redb::' in c:
                return 'commit'
            return None
        paths = Tracer(crate, classify).run_fn(f)
        problems = []
        oks = ok_exits(paths)
        for (ex, t, v) in oks:
            tb = [base(x) for x in t if '@' not in x]
            if tb != ['op', 'batch', 'commit']:
                problems.append(f'an Ok exit with the steps {tb}')
        if not oks:
            problems.append('no Ok path')
        # a failed step may not be followed by commit
        for (ex, t, v) in paths:
            if any(x in t for x in ('op@Err', 'batch@Err')) and 'commit' in [base(x) for x in t if '@' not in x]:
                problems.append('commit after a failed step')
        opc = [nd for nd, a in crate.walk_fn(f) if nd.get('k') == 'call' and 'redb::' in callee(nd) and short(callee(nd)) == op and 'Table' in callee(nd)]
        for nd_, anc_ in crate.walk_fn(f):
            if nd_.get('k') == 'call' and (nd_ in opc or callee(nd_) == f'{REDB}::batch_process' or (short(callee(nd_)) == 'commit' and 'redb::' in callee(nd_))):
                chain = [x for x in anc_ if isinstance(x, dict)]
                if not chain or chain[-1].get('k') != 'try':
                    problems.append(f'the result of {short(callee(nd_))} is not propagated with `?`')
        if len(opc) == 1:
            if b.origins(opc[0]['args'][1]) != {'param(key)'}:
                problems.append(f'the key written is not the key of the action ({sorted(b.origins(opc[0]["args"][1]))})')
            if op == 'insert' and b.origins(opc[0]['args'][2]) != {'param(value)'}:
                problems.append('the value written is not the value of the action')
        else:
            problems.append(f'{len(opc)} table.{op} sites')
        if problems:
            rep.violation('C18.g', fname, f.loc, '; '.join(sorted(set(problems))), key=f'C18.g/{fname}/' + '|'.join(sorted({p_.split(' (')[0] for p_ in problems})))
        else:
            rep.ok('C18.g', fname, f.loc, f'table.{op}(key..)? -> batch_process(..)? -> commit()?')
    f = crate.fn(f'{REDB}::restore_entries')
    b = Bindings(crate, f)
    ins = [(nd, a) for nd, a in crate.walk_fn(f) if nd.get('k') == 'call' and callee(nd) == f'{STORE}::insert']
    good = False
    if ins:
        nd, anc = ins[0]
        in_loop = any(isinstance(x, dict) and x.get('k') == 'for' for x in anc)
        chain = [x for x in anc if isinstance(x, dict)]
        good = in_loop and chain[-1].get('k') == 'try' and b.origins(nd['args'][3]) == {'lit(True)'} and \
            all('parse_segments' in x for x in b.origins(nd['args'][1])) and not [it for it in guards(anc + (nd,)) if it[0] == 'if']
    if good:
        rep.ok('C18.g', 'restore_entries', f.loc, 'every entry of the table: store.insert(parse_segments(key), value, true)?')
    else:
        rep.violation('C18.g', 'restore_entries', f.loc, 'not every persisted entry is inserted into the store (forced, unconditionally)', key='C18.g/restore_entries')
    f = crate.fn(f'{REDB}::apply_last_will')
    lp = [nd for nd, a in crate.walk_fn(f) if nd.get('k') == 'for']
    cs = {short(callee(nd)) + ('@table' if 'redb::' in callee(nd) else '') for nd, a in walk(lp[0]['body']) if nd.get('k') == 'call'} if lp else set()
    if 'insert_plain' in cs and 'insert@table' in cs:
        rep.ok('C18.g', 'apply_last_will', f.loc, 'each last-will entry goes into the store and into the table')
    else:
        rep.violation('C18.g', 'apply_last_will', f.loc, f'a last-will entry is not applied to both the store and the table ({sorted(cs)})', key='C18.g/apply_last_will')
    f = crate.fn(f'{REDB}::apply_grave_good')
    lp = [nd for nd, a in crate.walk_fn(f) if nd.get('k') == 'for']
    cs = {short(callee(nd)) + ('@table' if 'redb::' in callee(nd) else '') for nd, a in walk(lp[0]['body']) if nd.get('k') == 'call'} if lp else set()
    if 'delete_matches' in cs and 'remove@table' in cs:
        rep.ok('C18.g', 'apply_grave_good', f.loc, 'each grave-goods pattern is deleted from the store and every removed key from the table')
    else:
        rep.violation('C18.g', 'apply_grave_good', f.loc, f'grave goods are not applied to both the store and the table ({sorted(cs)})', key='C18.g/apply_grave_good')


def rule_h(prog, rep):
    rep.rule('C18.h', 'T3', 'an ended session leaves no pending registration behind: Worterbuch::disconnected queues '
             'remove_grave_goods_and_last_will(client_id) to the writer exactly once on every path (= the clean-up order clause '
             'C07.b) - a registration that stays in the grave-goods / last-will tables is applied again by the next load, after '
             'newer changes')
    from . import c07
    c07.rule_b(prog, Proxy(rep, 'C18.h'))


RULES = [('C18.h', rule_h), ('C18.g', rule_g), ('C18.f', rule_f), ('C18.a', rule_a), ('C18.b', rule_b), ('C18.c', rule_c), ('C18.d', rule_d), ('C18.e', rule_e)]
