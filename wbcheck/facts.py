"""Fact extraction: runs the wbfacts rustc driver over a worterbuch source tree and caches the result.

Facts are keyed by a hash of every *.rs / Cargo.toml / Cargo.lock of the tree, so an unchanged tree re-uses them and
any edit re-extracts (checks always reflect the current working tree). Fail closed: after an extraction a fresh fact
file must exist for each of the six workspace crates.
"""
import fcntl
import glob
import hashlib
import json
import os
import shutil
import subprocess
import sys
import time

VERIF = os.path.dirname(os.path.dirname(os.path.abspath(__file__)))
CACHE = os.environ.get('WBVERIF_CACHE', os.path.join(VERIF, '.cache'))
DRIVER = os.path.join(VERIF, 'tools', 'wbfacts', 'target', 'release', 'wbfacts')
SERDESHAPE = os.path.join(VERIF, 'tools', 'serdeshape', 'target', 'release', 'serdeshape')
REPO = os.environ.get('WBVERIF_REPO', '/repo')

MEMBERS = ['worterbuch-common', 'worterbuch-client', 'worterbuch', 'worterbuch-cluster-orchestrator', 'worterbuch-cli',
           'worterbuch-speedtest']
# crate names as rustc sees them (lib targets)
LIB_CRATES = ['worterbuch_common', 'worterbuch_client', 'worterbuch', 'worterbuch_cluster_orchestrator', 'worterbuch_cli']


class ExtractionError(Exception):
    pass


def source_files(root):
    out = []
    for base, dirs, files in os.walk(root):
        dirs[:] = sorted(d for d in dirs if d not in ('target', '.git', 'node_modules'))
        for f in sorted(files):
            if f.endswith('.rs') or f in ('Cargo.toml', 'Cargo.lock', 'rust-toolchain.toml', 'build.rs'):
                out.append(os.path.join(base, f))
    return out


def tree_hash(root, extra=''):
    h = hashlib.sha256()
    for p in source_files(root):
        h.update(os.path.relpath(p, root).encode())
        h.update(b'\0')
        with open(p, 'rb') as fh:
            h.update(fh.read())
        h.update(b'\0')
    # the driver binary is part of the key: a rebuilt driver re-extracts
    try:
        st = os.stat(DRIVER)
        h.update(f'{st.st_size}:{int(st.st_mtime)}'.encode())
    except OSError:
        pass
    h.update(extra.encode())
    return h.hexdigest()[:24]


def nightly_sysroot():
    return subprocess.check_output(['rustc', '+nightly', '--print', 'sysroot'], text=True).strip()


def _run_driver(root, target_dir, raw_dir, cargo_args, log):
    env = dict(os.environ)
    env['LD_LIBRARY_PATH'] = nightly_sysroot() + '/lib' + (':' + env['LD_LIBRARY_PATH'] if env.get('LD_LIBRARY_PATH') else '')
    env['RUSTFLAGS'] = '-Awarnings'
    env['RUSTC_WORKSPACE_WRAPPER'] = DRIVER
    env['WBFACTS_OUT'] = raw_dir
    env['CARGO_TARGET_DIR'] = target_dir
    env['CARGO_NET_OFFLINE'] = 'true'
    env.pop('RUSTC_WRAPPER', None)
    # cargo's freshness cache would silently skip the wrapper: drop the members' fingerprints
    fp = os.path.join(target_dir, 'debug', '.fingerprint')
    if os.path.isdir(fp):
        for m in MEMBERS:
            for d in glob.glob(os.path.join(fp, m + '-*')):
                shutil.rmtree(d, ignore_errors=True)
    cmd = ['cargo', '+nightly', 'check', '--offline', '--workspace'] + cargo_args
    p = subprocess.run(cmd, cwd=root, env=env, stdout=subprocess.PIPE, stderr=subprocess.STDOUT, text=True)
    with open(log, 'w') as fh:
        fh.write(' '.join(cmd) + '\n' + p.stdout)
    if p.returncode != 0:
        tail = '\n'.join(p.stdout.splitlines()[-40:])
        raise ExtractionError(f'cargo check failed on {root} (the tree does not compile?)\n{tail}')


def cargo_metadata(root):
    p = subprocess.run(['cargo', 'metadata', '--offline', '--format-version', '1', '--locked'], cwd=root,
                       stdout=subprocess.PIPE, stderr=subprocess.PIPE, text=True,
                       env=dict(os.environ, CARGO_NET_OFFLINE='true'))
    if p.returncode != 0:
        p = subprocess.run(['cargo', 'metadata', '--offline', '--format-version', '1'], cwd=root,
                           stdout=subprocess.PIPE, stderr=subprocess.PIPE, text=True,
                           env=dict(os.environ, CARGO_NET_OFFLINE='true'))
    if p.returncode != 0:
        raise ExtractionError('cargo metadata failed: ' + p.stderr[-2000:])
    md = json.loads(p.stdout)
    # keep what the rules need: resolved features per package, workspace members, dependency edges
    pk = {x['id']: x for x in md['packages']}
    nodes = []
    for n in md['resolve']['nodes']:
        pkg = pk[n['id']]
        nodes.append({'name': pkg['name'], 'version': pkg['version'], 'features': sorted(n['features']),
                      'deps': sorted({pk[d['pkg']]['name'] for d in n['deps']}),
                      'member': n['id'] in md['workspace_members']})
    return {'nodes': nodes}


def serde_shapes(root):
    if not os.path.exists(SERDESHAPE):
        raise ExtractionError('serdeshape tool not built (run ./setup.sh)')
    files = [p for p in source_files(root) if p.endswith('.rs') and '/tests/' not in p]
    p = subprocess.run([SERDESHAPE] + files, stdout=subprocess.PIPE, stderr=subprocess.PIPE, text=True)
    if p.returncode != 0:
        raise ExtractionError('serdeshape failed: ' + p.stderr[-2000:])
    d = json.loads(p.stdout)
    for t in d['types']:
        t['file'] = os.path.relpath(t['file'], root)
    return d


def ensure_facts(root=None, config='default', cargo_args=None, quiet=False):
    """Returns the directory holding <crate>.<lib|bin>.json, metadata.json, serde.json for the tree at `root`."""
    root = root or REPO
    cargo_args = cargo_args or []
    os.makedirs(CACHE, exist_ok=True)
    key = tree_hash(root, config + ' '.join(cargo_args))
    out = os.path.join(CACHE, 'facts', key)
    done = os.path.join(out, 'DONE')
    if os.path.exists(done):
        try:
            os.utime(out, None)   # LRU: the collector removes the least recently used directories
        except OSError:
            pass
        return out
    lock = open(os.path.join(CACHE, 'lock'), 'w')
    fcntl.flock(lock, fcntl.LOCK_EX)
    try:
        if os.path.exists(done):
            return out
        if not os.path.exists(DRIVER):
            raise ExtractionError('wbfacts driver not built (run ./setup.sh)')
        t0 = time.time()
        target_dir = os.environ.get('WBVERIF_TARGET', os.path.join(CACHE, 'target'))
        raw = os.path.join(CACHE, 'raw.%d' % os.getpid())
        shutil.rmtree(raw, ignore_errors=True)
        os.makedirs(raw)
        shutil.rmtree(out, ignore_errors=True)
        os.makedirs(out)
        if not quiet:
            print(f'[facts] extracting {root} (config {config}) -> {out}', file=sys.stderr)
        try:
            _run_driver(root, target_dir, raw, cargo_args, os.path.join(out, 'cargo.log'))
            produced = {}
            for f in glob.glob(os.path.join(raw, '*.json')):
                crate, kind, _pid, _ = os.path.basename(f).rsplit('.', 3)
                dst = os.path.join(out, f'{crate}.{kind}.json')
                if kind == 'bin':
                    # several bins may share the crate name of a lib; keep them apart by index
                    i = 0
                    while os.path.exists(dst):
                        i += 1
                        dst = os.path.join(out, f'{crate}.{kind}{i}.json')
                shutil.move(f, dst)
                produced.setdefault(crate, []).append(kind)
            missing = [c for c in LIB_CRATES if 'lib' not in produced.get(c, [])]
            if config == 'default' and missing:
                raise ExtractionError(f'no fresh fact file for crates {missing} (fail closed)')
            with open(os.path.join(out, 'metadata.json'), 'w') as fh:
                json.dump(cargo_metadata(root), fh)
            with open(os.path.join(out, 'serde.json'), 'w') as fh:
                json.dump(serde_shapes(root), fh)
            with open(done, 'w') as fh:
                fh.write(json.dumps({'root': root, 'config': config, 'wall_s': round(time.time() - t0, 1),
                                     'crates': produced}))
        finally:
            shutil.rmtree(raw, ignore_errors=True)
        _gc(keep=out)
        return out
    finally:
        fcntl.flock(lock, fcntl.LOCK_UN)
        lock.close()


def _gc(keep, maxn=30):
    base = os.path.join(CACHE, 'facts')
    ds = sorted((os.path.getmtime(os.path.join(base, d)), d) for d in os.listdir(base))
    for _, d in ds[:-maxn]:
        p = os.path.join(base, d)
        if p != keep:
            shutil.rmtree(p, ignore_errors=True)


if __name__ == '__main__':
    if '--warm' in sys.argv:
        d = ensure_facts()
        print('facts at', d, open(os.path.join(d, 'DONE')).read())
    else:
        print(ensure_facts(sys.argv[1] if len(sys.argv) > 1 else None))
