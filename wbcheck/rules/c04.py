"""C04 — one wildcard relation decides queries, deletes and notifications (structural clauses)."""
from ..ir import callee, short, walk, ctor_name, pat_variants, guards, strip_not, AnchorMissing
from ..trace import Tracer, ok_exits, base
from ..prov import Bindings
from .common import *

NOT_DECIDED = ('extensional agreement of the three matchers on all (pattern, key) pairs (program equivalence of recursive '
               'procedures); the rules catch a dropped / conditional lookup, a changed arm, a wrong recursion argument, a '
               'missing validation and the known zero-level disagreement, not an arbitrary semantic change inside an arm')

KS = 'worterbuch_common::KeySegment'


def _keyseg_match(crate, f):
    ms = [n for n, a in crate.walk_fn(f) if n.get('k') == 'match' and 'KeySegment' in str(n.get('scrut_ty'))]
    if len(ms) != 1:
        raise AnchorMissing(f'match over KeySegment in {f.path} ({len(ms)})')
    return ms[0]


def _arm_of(m, variant):
    for arm in m['arms']:
        vs = {short(v) for v in pat_variants(arm['pat'])}
        if variant in vs:
            return arm
    return None


def rule_a(prog, rep):
    rep.rule('C04.a', 'T4', 'every matcher handles every wildcard kind: ncollect_matches, ndelete_matches and '
             'ncollect_matching_children have one arm per KeySegment variant and no catch-all; add_matches performs the '
             'lookups of the `?` child, the `#` child and the literal child unconditionally on every iteration, each followed '
             'on its Some edge by the right continuation')
    crate = prog.crate(WB)
    variants = enum_variants(prog.crate(COMMON), 'KeySegment')
    n = 0
    for name in ('ncollect_matches', 'ndelete_matches', 'ncollect_matching_children'):
        f = crate.fn(f'{STORE}::{name}')
        m = _keyseg_match(crate, f)
        for v in variants:
            n += 1
            arm = _arm_of(m, v)
            if arm is None:
                rep.violation('C04.a', f'{name}:{v}', loc(f, m), f'no explicit arm for KeySegment::{v}', key=f'C04.a/{name}/{v}/missing')
            else:
                rep.ok('C04.a', f'{name}:{v}', f'{f.file}:{arm.get("ln")}', 'explicit arm')
        for arm in m['arms']:
            if '_' in pat_variants(arm['pat']):
                rep.violation('C04.a', f'{name}:catch-all', f'{f.file}:{arm.get("ln")}', 'catch-all arm over KeySegment',
                              key=f'C04.a/{name}/catch-all')
    # subscriber matcher
    f = crate.fn('subscribers::add_matches')

    def classify(node, anc):
        if node.get('k') != 'call':
            return None
        c = callee(node)
        if short(c) == 'get' and 'HashMap' in c and len(node['args']) == 2:
            a = node['args'][1]
            while a.get('k') == 'ref':
                a = a['e']
            cn = ctor_name(a) or ''
            if cn.endswith('KeySegment::Wildcard'):
                return 'get?'
            if cn.endswith('KeySegment::MultiWildcard'):
                return 'get#'
            if a.get('k') == 'call' and 'KeySegment' in callee(a) and short(callee(a)) == 'from':
                return 'getL'
            return 'get-other'
        if c.endswith('subscribers::add_matches'):
            return 'rec'
        if c.endswith('subscribers::add_all_children'):
            return 'all'
        if short(c) in ('extend', 'extend_from_slice', 'append') and 'Vec' in c:
            return 'collect'
        return None
    # the loop over the key segments: `for elem in remaining_path` or `while let Some((elem, tail)) = remaining_path.split_first()`
    loops = [nd for nd, a in crate.walk_fn(f) if nd.get('k') in ('for', 'loop')]
    if len(loops) != 1:
        raise AnchorMissing('the loop over key segments in add_matches')
    tr = Tracer(crate, classify)
    tr.env = {}
    body = tr.expr(loops[0]['body'])
    bad = []
    for (ex, t, v) in body:
        tb = [base(x) for x in t]
        if loops[0].get('k') == 'loop' and ex.startswith('break') and not [x for x in tb if x.startswith('get') or x in ('rec', 'all', 'collect')]:
            continue     # the `None` exit of `while let Some(..) = rest.split_first()`: no more segments
        # each lookup happens on every path through an iteration (a `return` may only follow all three)
        for g in ('get?', 'get#', 'getL'):
            if tb.count(g) != 1:
                bad.append((g, t))
        if 'get?@Some' in tb and 'rec' not in tb[tb.index('get?@Some'):]:
            bad.append(('?-continuation', t))
        if 'get#@Some' in tb and 'all' not in tb[tb.index('get#@Some'):]:
            bad.append(('#-continuation', t))
        if 'getL@None' in tb and ex not in ('ret',):
            bad.append(('literal-miss-must-stop', t))
        if 'getL@Some' in tb and ex.split(':')[0] not in ('fall', 'continue'):
            bad.append(('literal-hit-must-descend', t))
    n += 3
    if bad:
        what, t = bad[0]
        rep.violation('C04.a', f'add_matches:{what}', loc(f, loops[0]), f'iteration path violates the lookup discipline ({what}): '
                      f'{list(t)}', key=f'C04.a/add_matches/{what}',
                      expected='every iteration: get(?), get(#), get(literal) exactly once each, unconditionally')
    else:
        rep.ok('C04.a', 'add_matches:lookups', loc(f, loops[0]), f'{len(body)} iteration paths: `?`, `#` and literal child are each '
               'looked up exactly once on every path; Some edges recurse / collect all / descend')
    # recursion argument: the tail (remaining_path advanced before the recursive call), and the terminal node collects
    b = Bindings(crate, f)
    rec = crate.calls(f, lambda c: c.endswith('subscribers::add_matches'))
    # the advancing assignment `<tail> = &<tail>[1..]` (the local is identified by this shape, not by its name)
    def _self_tail(nd):
        r = nd['r']
        if nd['l'].get('k') != 'path' or nd['l'].get('res') != 'local' or r.get('k') != 'ref' or r['e'].get('k') != 'index':
            return False
        base_ = r['e']['e']
        return base_.get('k') == 'path' and base_.get('id') == nd['l'].get('id') and \
            any(x.get('k') == 'lit' and x['v'].get('v') == 1 for x, _ in walk(r['e'].get('i', {})))
    adv = [nd for nd, a in walk(loops[0]['body']) if nd.get('k') == 'assign' and _self_tail(nd)]
    adv_ok = len(adv) == 1 and 'param(remaining_path)' in ''.join(b.origins(adv[0]['l']))
    if not adv:
        # `while let Some((elem, tail)) = rest.split_first() { rest = tail; .. }`
        adv = [nd for nd, a in walk(loops[0]['body']) if nd.get('k') == 'assign' and nd['l'].get('k') == 'path' and
               any('split_first' in x and x.endswith('[1]') for x in b.origins(nd['r']))]
        adv_ok = len(adv) == 1 and any('param(remaining_path)' in x or 'split_first' in x for x in b.origins(adv[0]['l']))
    stmts_ = loops[0]['body'].get('stmts') or []
    # (a `while let` loop is `loop { match .. { Some(..) => { body } } }`: look for the first statement of the innermost body)
    first_stmt = stmts_[0] if stmts_ else None
    if adv and first_stmt is not adv[0]:
        for nd_, a_ in walk(loops[0]['body']):
            if nd_.get('k') == 'block' and nd_.get('stmts') and nd_['stmts'][0] is adv[0]:
                first_stmt = adv[0]
    if len(rec) == 1 and adv_ok and first_stmt is adv[0] and rec[0][0]['args'][1].get('id') == adv[0]['l'].get('id'):
        rep.ok('C04.a', 'add_matches:tail', loc(f, rec[0][0]), 'recursion on the `?` child continues with the tail of the key')
    else:
        rep.violation('C04.a', 'add_matches:tail', f.loc, 'the `?` recursion does not continue with the tail of the key',
                      key='C04.a/add_matches/tail')
    paths = Tracer(crate, classify).run_fn(f)
    fin = [t for (ex, t, v) in ok_exits(paths) if t and base(t[-1]) == 'collect' and not t[-1].endswith('*')]
    if fin:
        rep.ok('C04.a', 'add_matches:terminal', f.loc, 'after the last key segment the subscribers of the reached node are collected')
    else:
        rep.violation('C04.a', 'add_matches:terminal', f.loc, 'no path collects the subscribers of the terminal node',
                      key='C04.a/add_matches/terminal')
    # add_all_children: own subscribers + all children recursively
    g = crate.fn('subscribers::add_all_children')
    cs = {short(callee(nd)) for nd, a in crate.walk_fn(g) if nd.get('k') == 'call'}
    inloop = [nd for nd, a in crate.walk_fn(g) if nd.get('k') == 'call' and callee(nd).endswith('add_all_children')
              and any(x.get('k') == 'for' for x in a)]
    if cs & {'extend', 'extend_from_slice', 'append'} and inloop:
        rep.ok('C04.a', 'add_all_children', g.loc, 'collects the node\'s subscribers and recurses into every child')
    else:
        rep.violation('C04.a', 'add_all_children', g.loc, 'does not collect own subscribers and all children', key='C04.a/add_all_children')
    rep.floor('C04.a', n, 12, 'matcher arms / lookups')


def _arm_facts(crate, f, arm, recurse_names):
    """facts about one KeySegment arm of a store traversal"""
    facts = {'recurse': [], 'iterates_all_children': False, 'errors_if_tail': False, 'reads_own_value': False,
             'child_lookup': None, 'drops_children': False}
    b = Bindings(crate, f)
    for nd, anc in walk(arm['body']):
        k = nd.get('k')
        if k == 'call':
            c = callee(nd)
            sh = short(c)
            if any(c.endswith(r) for r in recurse_names):
                # which path argument is passed on?
                pa = [a for a in nd['args'] if any(x in ('param(remaining_path)[i]', 'param(relative_path)[i]') or
                                                   x.startswith('struct') for x in b.origins(a))]
                arg_o = set()
                for a in nd['args']:
                    o = b.origins(a)
                    if any('remaining_path' in x or 'relative_path' in x or 'MultiWildcard' in x or x == 'array' for x in o):
                        arg_o |= o
                    if a.get('k') == 'ref' and a['e'].get('k') == 'array':
                        arg_o.add('array:' + ','.join(short(ctor_name(x) or '?') for x in a['e']['elems']))
                inloop = any(x.get('k') == 'for' for x in anc)
                facts['recurse'].append((short(c), tuple(sorted(arg_o)), inloop))
            if sh in ('get_child', 'get_child_mut'):
                facts['child_lookup'] = sh
            if sh in ('sub_tree', 'ls_owned') and any(True for _ in [0]):
                facts['iterates_all_children'] = facts['iterates_all_children'] or True
            if sh == 'value' and 'Node' in c:
                facts['reads_own_value'] = True
            if sh == 'drop_children':
                facts['drops_children'] = True
        if k == 'return':
            e = nd.get('e') or {}
            if e.get('k') == 'call' and short(callee(e)) == 'Err':
                g = guards(anc + (nd,))
                conds = [str(it[1])[:600] for it in g if it[0] == 'if']
                facts['errors_if_tail'] = 'unconditional' if not conds else ('tail' in ' '.join(conds) and 'is_empty' in ' '.join(conds))
    return facts


def _is_tail_init(e):
    """`&<path>[1..]`"""
    if not isinstance(e, dict) or e.get('k') != 'ref' or e['e'].get('k') != 'index':
        return False
    i = e['e'].get('i', {})
    return any(x.get('k') == 'lit' and x['v'].get('v') == 1 for x, _ in walk(i)) and i.get('k') != 'lit'


def rule_b(prog, rep):
    rep.rule('C04.b', 'T6', 'sibling agreement pget <-> pdelete: per KeySegment variant the two store traversals agree on the '
             'recursion facts: Regular -> child lookup of that segment, recursion with the tail; Wildcard -> all children, '
             'recursion with the tail; MultiWildcard -> error unless the tail is empty, and pdelete delegates to '
             'ncollect_matches(node, [MultiWildcard]) and then drops the children')
    crate = prog.crate(WB)
    fc = crate.fn(f'{STORE}::ncollect_matches')
    fd = crate.fn(f'{STORE}::ndelete_matches')
    fdc = crate.fn(f'{STORE}::ndelete_child_matches')
    mc, md = _keyseg_match(crate, fc), _keyseg_match(crate, fd)
    # the tail binding: `let tail = &path[1..]`
    tail_id = {}
    for f, pname in ((fc, 'remaining_path'), (fd, 'relative_path')):
        b = Bindings(crate, f)
        tails = [nd for nd, a in crate.walk_fn(f) if nd.get('k') == 'let' and nd['pat'].get('k') == 'bind' and _is_tail_init(nd.get('init'))]
        good = len(tails) == 1 and f'param({pname})' in ''.join(b.origins(tails[0]['init']))
        tail_id[f.path] = tails[0]['pat'].get('id') if tails else None
        if good:
            rep.ok('C04.b', f'{short(f.path)}:tail', loc(f, tails[0]), 'tail = &path[1..]')
        else:
            rep.violation('C04.b', f'{short(f.path)}:tail', f.loc, '`tail` is not the path without its first segment',
                          key=f'C04.b/{short(f.path)}/tail')
    rec = ('Store::ncollect_matches', 'Store::ndelete_matches', 'Store::ndelete_child_matches')
    for v in ('Regular', 'Wildcard', 'MultiWildcard'):
        ac, ad = _arm_of(mc, v), _arm_of(md, v)
        if ac is None or ad is None:
            rep.violation('C04.b', f'arm:{v}', '', 'arm missing in one of the traversals', key=f'C04.b/{v}/missing')
            continue
        Fc, Fd = _arm_facts(crate, fc, ac, rec), _arm_facts(crate, fd, ad, rec)
        problems = []
        bc = Bindings(crate, fc)
        bd = Bindings(crate, fd)

        def passes_tail(f, b, arm, callee_suffix):
            for nd, anc in walk(arm['body']):
                if nd.get('k') == 'call' and callee(nd).endswith(callee_suffix):
                    return any(a.get('k') == 'path' and a.get('id') is not None and a.get('id') == tail_id.get(f.path) for a in nd['args'])
            return None
        if v in ('Regular', 'Wildcard'):
            if passes_tail(fc, bc, ac, 'Store::ncollect_matches') is not True:
                problems.append('pget does not recurse with the tail')
            if passes_tail(fd, bd, ad, 'Store::ndelete_child_matches') is not True:
                problems.append('pdelete does not recurse with the tail')
            inl_c = [r for r in Fc['recurse'] if r[2]]
            inl_d = [r for r in Fd['recurse'] if r[2]]
            if v == 'Wildcard':
                if not inl_c or not Fc['iterates_all_children']:
                    problems.append('pget does not iterate all children')
                if not inl_d or not Fd['iterates_all_children']:
                    problems.append('pdelete does not iterate all children')
            else:
                if inl_c or inl_d:
                    problems.append('literal segment handled in a loop')
                if Fc['child_lookup'] != 'get_child':
                    problems.append('pget does not look up the literal child')
        else:
            if Fc['errors_if_tail'] is not True:
                problems.append(f'pget: error for non-trailing # is {Fc["errors_if_tail"]}')
            if Fd['errors_if_tail'] is not True:
                problems.append(f'pdelete: error for non-trailing # is {Fd["errors_if_tail"]}')
            deleg = [r for r in Fd['recurse'] if r[0] == 'ncollect_matches' and any('MultiWildcard' in x for x in r[1])]
            if not deleg:
                problems.append('pdelete does not delegate to ncollect_matches(.., [MultiWildcard])')
            if not Fd['drops_children']:
                problems.append('pdelete does not drop the children after collecting')
            selfrec = [r for r in Fc['recurse'] if r[0] == 'ncollect_matches' and r[2] and any('MultiWildcard' in x for x in r[1])]
            if not selfrec:
                problems.append('pget does not recurse into all children with [MultiWildcard]')
        if problems:
            rep.violation('C04.b', f'arm:{v}', f'{fc.file}:{ac.get("ln")} / {fd.file}:{ad.get("ln")}', '; '.join(problems),
                          key=f'C04.b/{v}/' + '|'.join(problems))
        else:
            rep.ok('C04.b', f'arm:{v}', f'{fc.file}:{ac.get("ln")} / {fd.file}:{ad.get("ln")}', 'pget and pdelete agree')
    # ndelete_child_matches: looks up exactly the child `id` and recurses into ndelete_matches with relative_path unchanged
    b = Bindings(crate, fdc)
    rc = crate.calls(fdc, lambda c: c.endswith('Store::ndelete_matches'))
    gl = crate.calls(fdc, lambda c: short(c) == 'get_child_mut')
    good = len(rc) == 1 and len(gl) == 1 and b.origins(gl[0][0]['args'][1]) == {'param(id)'} and \
        any(b.origins(a) == {'param(relative_path)'} for a in rc[0][0]['args'])
    if good:
        rep.ok('C04.b', 'ndelete_child_matches', fdc.loc, 'descends into child `id` with the path it was given')
    else:
        rep.violation('C04.b', 'ndelete_child_matches', fdc.loc, 'does not descend into child `id` with the given path',
                      key='C04.b/ndelete_child_matches')
    # base case: empty pattern -> the node's own value (both)
    for f, m_ in ((fc, 'value'), (fd, 'take_value')):
        b = Bindings(crate, f)
        found = False
        for nd, anc in crate.walk_fn(f):
            if nd.get('k') == 'if' and 'is_empty' in str(nd['cond'])[:400]:
                cs = {short(callee(x)) for x, _ in walk(nd['then']) if x.get('k') == 'call'}
                if m_ in cs and 'push' in cs and any(x.get('k') == 'return' for x, _ in walk(nd['then'])):
                    found = True
        if found:
            rep.ok('C04.b', f'{short(f.path)}:base', f.loc, f'empty pattern -> {m_}() of the node, then return')
        else:
            rep.violation('C04.b', f'{short(f.path)}:base', f.loc, 'base case changed', key=f'C04.b/{short(f.path)}/base')


def rule_c(prog, rep):
    rep.rule('C04.c', 'T6', 'zero-level `#`: Z(store) = the MultiWildcard arm of ncollect_matches reads the current node\'s own '
             'value (pattern K/# matches key K); Z(subscribers) = add_matches consults the `#` child on the terminal node '
             '(after the last key segment). The relation is one relation only if Z(store) = Z(subscribers)')
    crate = prog.crate(WB)
    fc = crate.fn(f'{STORE}::ncollect_matches')
    arm = _arm_of(_keyseg_match(crate, fc), 'MultiWildcard')
    zs = any(nd.get('k') == 'call' and short(callee(nd)) == 'value' and 'Node' in callee(nd) for nd, a in walk(arm['body']))
    f = crate.fn('subscribers::add_matches')
    loops = [nd for nd, a in crate.walk_fn(f) if nd.get('k') in ('for', 'loop')]
    if len(loops) != 1:
        raise AnchorMissing('the loop over key segments in add_matches')
    zsub = False
    for nd, anc in crate.walk_fn(f):
        if nd.get('k') == 'call' and short(callee(nd)) == 'get' and 'MultiWildcard' in str(nd['args'][1])[:300]:
            if not any(a is loops[0] for a in anc):
                zsub = True
    if zs == zsub:
        rep.ok('C04.c', 'zero-level-#', f'{fc.file}:{arm.get("ln")} / {f.loc}', f'Z(store) = Z(subscribers) = {zs}')
    else:
        rep.violation('C04.c', 'zero-level-#', f'{fc.file}:{arm.get("ln")} / {f.loc}',
                      f'Z(store)={zs} (pget/pdelete K/# include key K) but Z(subscribers)={zsub} (a subscriber of K/# is not '
                      f'notified for K)', key=f'C04.c/zero-level/store={zs}/subscribers={zsub}', expected='equal')


ENTRY = [('pget', 'pattern'), ('internal_pdelete', 'pattern'), ('psubscribe', 'pattern'), ('subscribe', 'key'), ('pls', 'parent')]


def rule_d(prog, rep):
    rep.rule('C04.d', 'T2', 'a non-trailing `#` is rejected before use: every pattern entry point of the core (pget, '
             'internal_pdelete, psubscribe, subscribe, pls) is dominated by a validation that fails for `#` before the last '
             'position (today the rejection happens lazily inside the store traversal, so it depends on the data)')
    crate = prog.crate(WB)
    validators = [f.path for f in crate.top_fns() + prog.crate(COMMON).top_fns()
                  if any(x in short(f.path).lower() for x in ('validate_pattern', 'check_pattern', 'validate_multi', 'check_multi_wildcard'))]
    for fname, param in ENTRY:
        f = crate.fn(f'{CORE}::{fname}')
        calls = {callee(nd) for nd, a in crate.walk_fn(f) if nd.get('k') == 'call'}
        has = any(v in calls for v in validators) or any('MultiWildcardAtIllegalPosition' in str(nd)[:2000] for nd, a in crate.walk_fn(f)
                                                         if nd.get('k') == 'return')
        if has:
            rep.ok('C04.d', f'Worterbuch::{fname}', f.loc, 'validates the pattern up front')
        else:
            rep.violation('C04.d', f'Worterbuch::{fname}', f.loc, 'no up-front rejection of a non-trailing `#`: the answer depends on '
                          'the stored data (traversal reaches the `#` or not)', key=f'C04.d/{fname}/no-upfront-validation')


def rule_e(prog, rep):
    rep.rule('C04.e', 'T4', 'segment classification: From<&str> for KeySegment maps exactly "?" to Wildcard and "#" to MultiWildcard and '
             'every other text to Regular(text); AsRef<str> / Deref / Display map the variants back to the same texts; '
             'KeySegment::parse and parse_segments split on "/" and convert every segment; parse_segments rejects both wildcards')
    common = prog.crate(COMMON)
    fr = [f for f in common.top_fns() if short(f.path) == 'from' and 'KeySegment' in f.path and "str" in f.sig.split('->')[0] and 'String' not in f.sig.split('->')[0]]
    if len(fr) != 1:
        raise AnchorMissing(f'From<&str> for KeySegment ({len(fr)})')
    f = fr[0]
    ms = [nd for nd, a in common.walk_fn(f) if nd.get('k') == 'match']
    got = {}
    if ms:
        for arm in ms[0]['arms']:
            p_ = arm['pat']
            c = [short(ctor_name(nd)) for nd, a in walk(arm['body']) if ctor_name(nd) and 'KeySegment::' in ctor_name(nd)]
            if p_.get('k') == 'plit':
                got[p_['v'].get('v')] = c[0] if c else '?'
            else:
                got['*'] = c[0] if c else '?'
    if not ms:
        # `if s == "?" { Wildcard } else if s == "#" { MultiWildcard } else { Regular(s.to_owned()) }`
        fb_ = Bindings(common, f)

        def chain(e):
            while isinstance(e, dict) and e.get('k') == 'block' and not e.get('stmts') and 'tail' in e:
                e = e['tail']
            if isinstance(e, dict) and e.get('k') == 'if' and 'else' in e:
                c = e['cond']
                if c.get('k') == 'binary' and c.get('op') == 'Eq':
                    lit = next((x for x in (c['l'], c['r']) if x.get('k') == 'lit'), None)
                    other = c['r'] if lit is c['l'] else c['l']
                    if lit is not None and all(x.startswith('param(') for x in fb_.origins(other)):
                        cs = [short(ctor_name(nd)) for nd, a in walk(e['then']) if ctor_name(nd) and 'KeySegment::' in ctor_name(nd)]
                        got[lit['v'].get('v')] = cs[0] if cs else '?'
                        chain(e['else'])
                        return
                got['!'] = 'unrecognised condition'
            elif isinstance(e, dict):
                cs = [short(ctor_name(nd)) for nd, a in walk(e) if ctor_name(nd) and 'KeySegment::' in ctor_name(nd)]
                got['*'] = cs[0] if cs else '?'
        chain(common.user_body(f).hir)
    want = {'?': 'Wildcard', '#': 'MultiWildcard', '*': 'Regular'}
    if got == want:
        rep.ok('C04.e', 'From<&str>', f.loc, '"?" -> Wildcard, "#" -> MultiWildcard, other -> Regular')
    else:
        rep.violation('C04.e', 'From<&str>', f.loc, f'classification {got}', key='C04.e/from-str/' + '|'.join(f'{k}:{v}' for k, v in sorted(got.items())),
                      expected=str(want))
    for tr in ('AsRef', 'Deref', 'Display'):
        cands = [g for g in common.top_fns() if 'KeySegment' in g.path and (f'{tr}' in g.path) and short(g.path) in ('as_ref', 'deref', 'fmt')]
        for g in cands:
            ms = [nd for nd, a in common.walk_fn(g) if nd.get('k') == 'match']
            if not ms:
                continue
            back = {}
            for arm in ms[0]['arms']:
                vs = {short(v) for v in pat_variants(arm['pat'])}
                lits = [nd['v'].get('v') for nd, a in walk(arm['body']) if nd.get('k') == 'lit' and nd['v'].get('t') == 'str']
                lits += [x.strip() for nd, a in walk(arm['body']) if nd.get('k') == 'lit' and nd['v'].get('t') == 'bytestr' for x in [nd['v'].get('v')] if x.strip() in ('?', '#')]
                for v in vs:
                    back[v] = [x for x in lits if x in ('?', '#')]
            if back.get('Wildcard') == ['?'] and back.get('MultiWildcard') == ['#']:
                rep.ok('C04.e', f'{tr} for KeySegment', g.loc, 'Wildcard -> "?", MultiWildcard -> "#"')
            else:
                rep.violation('C04.e', f'{tr} for KeySegment', g.loc, f'inverse mapping {back}', key=f'C04.e/{tr}')
    ps = common.fn('parse_segments')
    b = Bindings(common, ps)
    ms = [nd for nd, a in common.walk_fn(ps) if nd.get('k') == 'match' and 'KeySegment' in str(nd.get('scrut_ty'))]
    loops = [nd for nd, a in common.walk_fn(ps) if nd.get('k') == 'for']
    res = []
    sp = [nd for nd, a in common.walk_fn(ps) if nd.get('k') == 'call' and short(callee(nd)) == 'split']
    # two spellings: `for segment in pattern.split('/') { match .. { Regular(r) => segments.push(r), ? / # => return Err(..) } } Ok(segments)`
    # or `pattern.split('/').map(|segment| match .. { Regular(r) => Ok(r), ? / # => Err(..) }).collect()` (collect into Result stops at
    # the first Err)
    maps = [nd for nd, a in common.walk_fn(ps) if nd.get('k') == 'call' and short(callee(nd)) == 'map' and
            any('split' in x for x in b.origins(nd['args'][0]))]
    colls = [nd for nd, a in common.walk_fn(ps) if nd.get('k') == 'call' and short(callee(nd)) == 'collect' and 'Result' in str(nd.get('ty'))]
    iterator_form = bool(maps and colls) and not loops
    if not iterator_form and (not loops or not any('split' in x or 'param(pattern)' in x for x in b.origins(loops[0]['iter']))):
        res.append('does not iterate the segments of its argument')
    elif not sp or b.origins(sp[0]['args'][0]) != {'param(pattern)'} or sp[0]['args'][1].get('k') != 'lit' or sp[0]['args'][1]['v'].get('v') != '/':
        res.append('does not split its argument on "/"')
    if ms:
        for arm in ms[0]['arms']:
            vs = {short(v) for v in pat_variants(arm['pat'])}
            errs = [short(ctor_name(nd)) for nd, a in walk(arm['body']) if ctor_name(nd) and 'WorterbuchError::' in ctor_name(nd)]
            ret = any(x.get('k') == 'return' for x, _ in walk(arm['body']))
            if iterator_form:
                # the arm's value is the item: Err(..) ends the collection
                body_ = arm['body']
                while isinstance(body_, dict) and body_.get('k') == 'block' and 'tail' in body_ and not body_.get('stmts'):
                    body_ = body_['tail']
                ret = (ctor_name(body_) or '').endswith('Err')
                collected = (ctor_name(body_) or '').endswith('Ok') and body_['args'] and \
                    all('#Regular.0' in x for x in b.origins(body_['args'][0]))
            else:
                collected = any(x.get('k') == 'call' and short(callee(x)) == 'push' for x, _ in walk(arm['body']))
            if vs == {'Wildcard'} and (errs != ['IllegalWildcard'] or not ret):
                res.append(f'`?` segment -> {errs}')
            if vs == {'MultiWildcard'} and (errs != ['IllegalMultiWildcard'] or not ret):
                res.append(f'`#` segment -> {errs}')
            if vs == {'Regular'} and (errs or not collected):
                res.append('literal segment is not collected')
            if '_' in vs:
                res.append('catch-all arm')
    else:
        res.append('no match over KeySegment')
    if res:
        rep.violation('C04.e', 'parse_segments', ps.loc, '; '.join(res), key='C04.e/parse_segments/' + '|'.join(res))
    else:
        rep.ok('C04.e', 'parse_segments', ps.loc, 'split on "/", literal segments collected, `?` -> IllegalWildcard, `#` -> IllegalMultiWildcard')
    kp = common.fn('KeySegment::parse')
    sp = [nd for nd, a in common.walk_fn(kp) if nd.get('k') == 'call' and short(callee(nd)) == 'split']
    mp = [nd for nd, a in common.walk_fn(kp) if nd.get('k') == 'call' and short(callee(nd)) == 'map']
    kb_ = Bindings(common, kp)
    loop_form = False
    for lp_ in [nd for nd, a in common.walk_fn(kp) if nd.get('k') == 'for']:
        # `for segment in pattern.split('/') { segments.push(KeySegment::from(segment)) }` - every segment, unconditionally
        pushes = [(x, a_) for x, a_ in walk(lp_['body']) if x.get('k') == 'call' and short(callee(x)) == 'push']
        if any('split' in o for o in kb_.origins(lp_['iter'])) and len(pushes) == 1 and \
                not [it for it in guards(pushes[0][1] + (pushes[0][0],)) if it[0] in ('if', 'match')] and \
                any(y.get('k') == 'call' and 'KeySegment' in callee(y) and short(callee(y)) in ('from', 'into') for y, _ in walk(pushes[0][0]['args'][1])):
            loop_form = True
    if sp and sp[0]['args'][1].get('k') == 'lit' and sp[0]['args'][1]['v'].get('v') == '/' and \
            ((mp and 'KeySegment' in str(mp[0].get('ty'))) or loop_form):
        rep.ok('C04.e', 'KeySegment::parse', kp.loc, 'split on "/" and convert every segment')
    else:
        rep.violation('C04.e', 'KeySegment::parse', kp.loc, 'does not split on "/" and convert each segment', key='C04.e/parse')


# ------------------------------------------------------------------ C04.f pdelete removes only what the relation matched
NODE = 'store::Node::<K, V>'
SHRINK_CALLS = ('remove', 'remove_entry', 'retain', 'clear', 'drain', 'take', 'extract_if', 'pop_first', 'pop_last')
# removal primitives of Node and where the delete traversals may use them
PRIMS = {'trim': 'removes children that hold neither a value nor children',
         'take_value': 'the value of the node the pattern ends at',
         'drop_children': 'the whole subtree below a trailing `#` (after it was collected)',
         'strip': 'the $SYS subtree, export only'}


def _shrinks(crate, f):
    """does this function remove nodes / values by itself (not through another Node method)?"""
    b = Bindings(crate, f)
    for nd, anc in crate.walk_fn(f):
        k = nd.get('k')
        if k == 'assign' and nd['l'].get('k') == 'field' and nd['l']['name'] in ('tree', 'value'):
            r = nd['r']
            if r.get('k') == 'path' and str(r.get('path') or r.get('ctor_of') or '').endswith('None'):
                return True
        if k == 'call' and short(callee(nd)) in SHRINK_CALLS and nd['args']:
            o = b.origins(nd['args'][0])
            if any('.tree' in x or '.value' in x for x in o):
                return True
    return False


def single_key_removal_discipline(prog, rep, rid, fnames, what):
    """In the single-key removal functions `fnames` (recursive descent along a literal path) the only operations that remove a value
    or node are take_value() on the `relative_path.is_empty()` edge and trim(); anything else (drop_children, a raw remove) would
    take out more than the one addressed entry."""
    crate = prog.crate(WB)
    node_fns = [f for f in crate.top_fns() if f.path.startswith(NODE + '::')]
    shr = {short(f.path) for f in node_fns if _shrinks(crate, f)}
    n = 0
    node_paths = {f.path for f in node_fns}
    for fname in fnames:
        f0 = crate.fn(f'{STORE}::{fname}')
        bs = {}
        # private helpers the function calls are part of it (a de-duplicated "trim and report" block, for instance)
        for nd, anc, f in crate.walk_fn_deep(f0, exclude=node_paths | {f0.path} | {f'{STORE}::{x}' for x in
                                                                                 ('ncollect_matches', 'ndelete_matches', 'ndelete_child_matches', 'ndelete', 'ndelete_lock_nodes')}):
            if nd.get('k') != 'call' or not nd['args']:
                continue
            b = bs.setdefault(f.path, Bindings(crate, f))
            c = callee(nd)
            sh = short(c)
            raw = sh in SHRINK_CALLS and ('HashMap' in c or 'BTreeMap' in c) and any('param(node)' in x for x in b.origins(nd['args'][0]))
            if raw:
                n += 1
                rep.violation(rid, f'{fname}:{sh}', loc(f, nd), f'removes from the tree directly with {c}', key=f'{rid}/{fname}/raw/{sh}')
                continue
            if not c.startswith(NODE + '::') or sh not in shr:
                continue
            n += 1
            if sh == 'trim':
                rep.ok(rid, f'{fname}:trim', loc(f, nd), PRIMS['trim'])
            elif sh == 'take_value':
                g = guards(anc + (nd,))
                at_end = any(it[0] == 'if' and it[2] is True and it[1].get('k') == 'call' and short(callee(it[1])) == 'is_empty' and
                             b.origins(it[1]['args'][0]) == {'param(relative_path)'} for it in g)
                if at_end:
                    rep.ok(rid, f'{fname}:take_value', loc(f, nd), f'only {what} at the end of the path')
                else:
                    rep.violation(rid, f'{fname}:take_value', loc(f, nd), 'a value is removed at a node the path does not end at',
                                  key=f'{rid}/{fname}/take_value')
            else:
                rep.violation(rid, f'{fname}:{sh}', loc(f, nd), f'Node::{sh} removes more than {what} the path addresses '
                              '(the entries stored below it go too)', key=f'{rid}/{fname}/unreviewed/{sh}',
                              expected='take_value() at the end of the path, trim() on the way back')
    return n


def rule_f(prog, rep):
    rep.rule('C04.f', 'T1', 'pattern delete removes only what the relation matched: in the delete traversals the only operations '
             'that remove a value or a node are take_value() at the end of the pattern, drop_children() in the trailing-`#` arm '
             'and trim(); trim() removes exactly the children with no value and no children')
    crate = prog.crate(WB)
    node_fns = [f for f in crate.top_fns() if f.path.startswith(NODE + '::')]
    if len(node_fns) < 10:
        raise AnchorMissing(f'methods of {NODE} ({len(node_fns)})')
    shr = {short(f.path): f for f in node_fns if _shrinks(crate, f)}
    n = 0
    trav = [crate.fn(f'{STORE}::{x}') for x in ('ndelete_matches', 'ndelete_child_matches', 'ncollect_matches')]
    node_paths = {f.path for f in node_fns}
    trav_paths = {f.path for f in trav}
    for f0 in trav:
        name = short(f0.path)
        bs = {}
        for nd, anc, f in crate.walk_fn_deep(f0, exclude=node_paths | trav_paths | {f'{STORE}::ndelete'}):
            b = bs.setdefault(f.path, Bindings(crate, f))
            if nd.get('k') == 'assign' and nd['l'].get('k') == 'field' and nd['l']['name'] in ('tree', 'value') and \
                    'Node' in str(nd['l'].get('base_ty')):
                n += 1
                rep.violation('C04.f', f'{name}:direct-write', loc(f, nd), f'writes node.{nd["l"]["name"]} directly',
                              key=f'C04.f/{name}/direct-write/{nd["l"]["name"]}')
                continue
            if nd.get('k') != 'call' or not nd['args']:
                continue
            c = callee(nd)
            sh = short(c)
            on_node = c.startswith(NODE + '::')
            raw = sh in SHRINK_CALLS and any('param(node)' in x and ('.tree' in x or '.value' in x or x.endswith(')')) for x in b.origins(nd['args'][0])) \
                and ('HashMap' in c or 'Option' in c or 'BTreeMap' in c)
            if raw:
                n += 1
                rep.violation('C04.f', f'{name}:{sh}', loc(f, nd), f'removes from the tree directly with {c}',
                              key=f'C04.f/{name}/raw/{sh}')
                continue
            if not on_node or sh not in shr:
                continue
            n += 1
            g = [it for it in guards(anc + (nd,))]
            if sh == 'trim':
                rep.ok('C04.f', f'{name}:trim', loc(f, nd), PRIMS['trim'])
            elif sh == 'take_value':
                at_end = name == 'ndelete_matches' and any(
                    it[0] == 'if' and it[2] is True and it[1].get('k') == 'call' and short(callee(it[1])) == 'is_empty' and
                    b.origins(it[1]['args'][0]) == {'param(relative_path)'} for it in g)
                if at_end:
                    rep.ok('C04.f', f'{name}:take_value', loc(f, nd), 'only when the pattern is exhausted at this node')
                else:
                    rep.violation('C04.f', f'{name}:take_value', loc(f, nd), 'a value is removed at a node the pattern does not end at',
                                  key=f'C04.f/{name}/take_value')
            elif sh == 'drop_children':
                in_arm = name == 'ndelete_matches' and any(it[0] == 'match' and {short(v) for v in pat_variants(it[2]['pat'])} == {'MultiWildcard'}
                                                            for it in g)
                if in_arm:
                    rep.ok('C04.f', f'{name}:drop_children', loc(f, nd), 'only in the trailing-`#` arm')
                else:
                    rep.violation('C04.f', f'{name}:drop_children', loc(f, nd), 'a subtree is dropped outside the trailing-`#` arm',
                                  key=f'C04.f/{name}/drop_children')
            else:
                rep.violation('C04.f', f'{name}:{sh}', loc(f, nd), f'Node::{sh} removes nodes / values and is not one of the reviewed '
                              f'removal operations of a pattern delete ({sorted(PRIMS)})', key=f'C04.f/{name}/unreviewed/{sh}',
                              expected='take_value at the pattern end, drop_children below a trailing #, trim')
    rep.floor('C04.f', n, 4, 'removal operations in the delete traversals')
    # ncollect_matches (the query) removes nothing: covered by the loop above (it takes `node: &StoreNode`)
    # trim / is_obsolete / is_empty
    tr = crate.fn(f'{NODE}::trim')
    cls = crate.closures_of(tr)
    ret = [nd for nd, a in crate.walk_fn(tr) if nd.get('k') == 'call' and short(callee(nd)) == 'retain']
    ok_trim = False
    if len(ret) == 1 and len(cls) == 1:
        cl = cls[0]
        cb = Bindings(crate, cl) if False else Bindings(crate, tr)
        body = cl.hir
        tail = body.get('tail') if body.get('k') == 'block' else body
        obs = [nd for nd, a in walk(body) if nd.get('k') == 'call' and callee(nd) == f'{NODE}::is_obsolete']
        # the closure returns the negation of is_obsolete() of the visited child
        if tail is not None and len(obs) == 1:
            t = tail
            neg = False
            while t.get('k') == 'unary' and t.get('op') == 'Not':
                neg = not neg
                t = t['e']
            to = cb.origins(t) if t.get('k') == 'path' else ({f'call({callee(t)})'} if t.get('k') == 'call' else set())
            ok_trim = neg and any('is_obsolete' in x for x in to) and \
                all(str(x).startswith('param[1]') or str(x).startswith('param(') for x in cb.origins(obs[0]['args'][0]))
    io = crate.fn(f'{NODE}::is_obsolete')
    t = io.hir.get('tail') if io.hir.get('k') == 'block' and not io.hir.get('stmts') else None
    ib = Bindings(crate, io)

    def _is_value_none(e):
        return e.get('k') == 'call' and short(callee(e)) == 'is_none' and ib.origins(e['args'][0]) == {'param(self).value'}

    def _is_empty_self(e):
        return e.get('k') == 'call' and callee(e) == f'{NODE}::is_empty' and ib.origins(e['args'][0]) == {'param(self)'}
    ok_obs = bool(t) and t.get('k') == 'binary' and t.get('op') == 'And' and \
        ((_is_value_none(t['l']) and _is_empty_self(t['r'])) or (_is_value_none(t['r']) and _is_empty_self(t['l'])))
    ie = crate.fn(f'{NODE}::is_empty')
    eb = Bindings(crate, ie)
    calls = [short(callee(nd)) for nd, a in crate.walk_fn(ie) if nd.get('k') == 'call']
    lits = [nd['v'].get('v') for nd, a in crate.walk_fn(ie) if nd.get('k') == 'lit']
    flds = {nd['name'] for nd, a in crate.walk_fn(ie) if nd.get('k') == 'field'}
    ok_empty = flds == {'tree'} and ((('unwrap_or' in calls and lits == [True]) or 'is_none_or' in calls) and
                                       any(nd.get('k') == 'path' and str(nd.get('path')).endswith('::is_empty') for nd, a in crate.walk_fn(ie))
                                       or False)
    for nm, okv, f_, what in (('trim', ok_trim, tr, 'retain(|_, child| !child.is_obsolete())'),
                              ('is_obsolete', ok_obs, io, 'value.is_none() && is_empty()'),
                              ('is_empty', ok_empty, ie, 'tree.map(is_empty).unwrap_or(true)')):
        if okv:
            rep.ok('C04.f', f'Node::{nm}', f_.loc, what)
        else:
            rep.violation('C04.f', f'Node::{nm}', f_.loc, f'is not `{what}`: pruning would remove nodes that still hold a value or '
                          'children (or keep empty ones)', key=f'C04.f/Node/{nm}')




def rule_g(prog, rep):
    rep.rule('C04.g', 'T3', 'traversal errors propagate and keys are rebuilt faithfully: the result of every store traversal call '
             '(ncollect_matches, ndelete_matches, ndelete_child_matches, ncollect_matching_children and their entry points) is '
             'consumed by `?` or returned - a dropped IllegalMultiWildcard would make one operation accept a pattern another '
             'rejects; the MultiWildcard arm of every traversal rejects a non-empty tail; every descent into a child pushes that '
             "child's segment onto the traversed path before it recurses (the reported keys are what the relation matched)")
    crate = prog.crate(WB)
    TRAV = ('ncollect_matches', 'ndelete_matches', 'ndelete_child_matches', 'ncollect_matching_children')
    n = 0
    for f in crate.top_fns():
        if not f.path.startswith(STORE + '::'):
            continue
        for nd, anc in crate.walk_fn(f):
            if nd.get('k') != 'call' or not callee(nd).startswith(STORE + '::') or short(callee(nd)) not in TRAV:
                continue
            n += 1
            chain = [a for a in anc if isinstance(a, dict)]
            par = chain[-1] if chain else {}
            if par.get('k') == 'await':
                par = chain[-2] if len(chain) > 1 else {}
            inst = f'{short(f.path)}->{short(callee(nd))}'
            tail_ok = par.get('k') in ('try', 'return') or (par.get('k') == 'block' and par.get('tail') is nd and len(chain) <= 2)
            if tail_ok:
                rep.ok('C04.g', inst, loc(f, nd), 'result propagated')
            else:
                how = short(callee(par)) if par.get('k') == 'call' else par.get('k')
                rep.violation('C04.g', inst, loc(f, nd), f'the traversal result is not propagated (consumed by `{how}`)',
                              key=f'C04.g/{inst}/dropped/{how}')
    rep.floor('C04.g', n, 12, 'traversal call sites')
    # trailing-# check in every traversal that has a MultiWildcard arm
    for name in ('ncollect_matches', 'ndelete_matches', 'ncollect_matching_children'):
        f = crate.fn(f'{STORE}::{name}')
        b = Bindings(crate, f)
        m = _keyseg_match(crate, f)
        arm = _arm_of(m, 'MultiWildcard')
        good = False
        if arm is not None and name == 'ncollect_matching_children':
            # a child listing pattern never contains `#`: the arm is an unconditional Err
            body = arm['body']
            while body.get('k') == 'block' and not body.get('tail') and len(body.get('stmts', [])) == 1:
                body = body['stmts'][0]
            while body.get('k') == 'block' and not body.get('stmts') and body.get('tail'):
                body = body['tail']
            good = body.get('k') == 'return' and 'IllegalMultiWildcard' in str(body)[:3000]
            if good:
                rep.ok('C04.g', f'{name}:trailing-#', f.loc, '`#` in a child-listing pattern -> Err(IllegalMultiWildcard), unconditionally')
                continue
        elif arm is not None:
            for nd, anc in walk(arm['body']):
                if nd.get('k') == 'if':
                    c, pol = strip_not(nd['cond'])
                    if c.get('k') == 'call' and short(callee(c)) == 'is_empty' and pol is False and _is_tail_origin(b, c['args'][0]):
                        good = any(x.get('k') == 'return' and 'IllegalMultiWildcard' in str(x)[:3000] for x, _ in walk(nd['then']))
        if good:
            rep.ok('C04.g', f'{name}:trailing-#', f.loc, '`#` with a non-empty tail -> Err(IllegalMultiWildcard)')
        else:
            rep.violation('C04.g', f'{name}:trailing-#', f.loc, 'the MultiWildcard arm does not reject a non-empty tail with IllegalMultiWildcard',
                          key=f'C04.g/{name}/trailing-hash')
    # path reconstruction
    for name in TRAV:
        f = crate.fn(f'{STORE}::{name}')
        b = Bindings(crate, f)
        bad = []
        k = 0
        for nd, anc in crate.walk_fn(f):
            if nd.get('k') != 'call' or not callee(nd).startswith(STORE + '::') or short(callee(nd)) not in TRAV:
                continue
            if short(callee(nd)) == 'ndelete_child_matches' or (name == 'ncollect_matches' and False):
                continue   # pushes inside (checked on ndelete_child_matches itself)
            # which child does this call descend into?  (first argument derives from get_child / tree iteration)
            a0 = b.origins(nd['args'][0])
            if a0 == {'param(node)'}:
                continue   # same node (e.g. `#` collects the subtree of the node itself)
            k += 1
            # the traversed-path argument must be a local that received push(<that child's key>) before the call
            tp = nd['args'][1]
            pushes = [x for x, _ in crate.walk_fn(f) if x.get('k') == 'call' and short(callee(x)) == 'push' and x['args'] and
                      x['args'][0].get('k') in ('path', 'ref') and _same_local(x['args'][0], tp) and (x.get('ln') or 0) <= (nd.get('ln') or 0)]
            if not pushes:
                bad.append(f'{short(callee(nd))}@descent-without-push')
        if name == 'ndelete_child_matches':
            pushes = [x for x, a_ in crate.walk_fn(f) if x.get('k') == 'call' and short(callee(x)) == 'push' and
                      b.origins(x['args'][1]) == {'param(id)'} and not [g for g in guards(a_ + (x,))]]
            if len(pushes) != 1:
                bad.append('no unconditional traversed_path.push(id)')
        if bad:
            rep.violation('C04.g', f'{name}:path', f.loc, 'a descent does not extend the traversed path by the child it enters: ' + ', '.join(sorted(set(bad))),
                          key=f'C04.g/{name}/path/' + '|'.join(sorted(set(bad))))
        else:
            rep.ok('C04.g', f'{name}:path', f.loc, f'{k} descents, each after push(<child key>) on the path it passes')


def _same_local(a, b_):
    while isinstance(a, dict) and a.get('k') in ('ref', 'unary'):
        a = a['e']
    while isinstance(b_, dict) and b_.get('k') in ('ref', 'unary'):
        b_ = b_['e']
    return a.get('k') == 'path' and b_.get('k') == 'path' and a.get('id') is not None and a.get('id') == b_.get('id')


def _is_tail_origin(b, e):
    """`tail` = &path[1..] of the pattern parameter"""
    o = b.origins(e)
    return bool(o) and all(x.startswith('param(') and x.endswith('[i]') for x in o)


def rule_h(prog, rep):
    rep.rule('C04.h', 'T1', 'what the notification matcher walks is what registration filled: the subscription trie is only ever '
             'extended node-wise and a subscriber leaves it by id; no trie node is removed (= the registry clause of C03.f) - a pruned '
             'inner node would cut off longer patterns that share its segments, so notifications would no longer follow the relation '
             'pget and pdelete use')
    from .c03 import registry_mutations
    registry_mutations(prog, rep, 'C04.h', 'subscribers::', 'HashMap<worterbuch_common::KeySegment, subscribers::Node', 'Vec<subscribers::Subscriber',
                       3, 'registry mutation sites (1 entry + 2 retain)')


RULES = [('C04.h', rule_h), ('C04.f', rule_f), ('C04.g', rule_g), ('C04.e', rule_e), ('C04.a', rule_a), ('C04.b', rule_b), ('C04.c', rule_c), ('C04.d', rule_d)]
