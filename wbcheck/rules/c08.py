"""C08 — clients cannot alter or fake the server's $SYS information (structural clauses)."""
import itertools
from ..ir import callee, short, walk, ctor_name, guards, strip_not, AnchorMissing
from ..trace import Tracer, base
from ..prov import Bindings
from .common import *
from .corefx import core_paths, classify_core, fallibility

NOT_DECIDED = ('that no sequence of individually allowed operations changes $SYS indirectly; the content the server itself '
               'writes under $SYS')


def rule_a(prog, rep):
    rep.rule('C08.a', 'T2', 'guard coverage: every Worterbuch method that takes a client-supplied key/pattern and reaches a store '
             'mutator, spub registration or notify_subscribers is dominated by check_for_read_only_key(<that key>, <that '
             'client id>) on every path; internal_pdelete may skip the guard only under its skip flag, and every call site '
             'passes the literal false for it')
    crate = prog.crate(WB)
    n = 0
    for fname, keyparam in (('set', 'key'), ('cset', 'key'), ('delete', 'key'), ('internal_pdelete', 'pattern'),
                            ('spub_init', 'key'), ('publish', 'key')):
        f, paths = core_paths(prog, fname, cond_events=('skip_read_only_check',))
        b = Bindings(crate, f)
        n += 1
        gcalls = crate.calls(f, lambda c: c.endswith('worterbuch::check_for_read_only_key'))
        ops_ok = all(b.origins(g[0]['args'][0]) == {f'param({keyparam})'} and b.origins(g[0]['args'][1]) == {'param(client_id)'}
                     for g in gcalls)
        if fname == 'spub_init':
            # the protected action is the registration of the stream key
            def classify(n_, a_):
                if n_.get('k') != 'call':
                    return None
                c = callee(n_)
                if c.endswith('worterbuch::check_for_read_only_key'):
                    return 'guard'
                if c == f'{CORE}::store_key':
                    return 'mut:store_key'
                return None
            paths = Tracer(crate, classify).run_fn(f)
        bad = None
        for (ex, t, v) in paths:
            tb = [base(x) for x in t]
            if '?skip_read_only_check=1' in tb:
                continue
            act = [i for i, x in enumerate(tb) if (x.startswith('mut:') and '@' not in x and '[' not in x) or x == 'notify']
            if not act:
                continue
            if 'guard' not in tb or tb.index('guard') > act[0] or 'guard@Ok' not in tb[:act[0] + 1] and 'guard@Ok' not in tb:
                bad = t
                break
        if bad is not None:
            rep.violation('C08.a', f'Worterbuch::{fname}', f.loc, f'acts on the client-supplied key without the $SYS guard: '
                          f'trace={list(bad)}', key=f'C08.a/{fname}/unguarded',
                          expected='check_for_read_only_key(key, client_id)? before the action')
        elif not ops_ok or not gcalls:
            rep.violation('C08.a', f'Worterbuch::{fname}', f.loc, 'guard is not applied to the request key and client id',
                          key=f'C08.a/{fname}/guard-operands')
        else:
            rep.ok('C08.a', f'Worterbuch::{fname}', loc(f, gcalls[0][0]), f'guard({keyparam}, client_id) dominates every action')
    rep.floor('C08.a', n, 6, 'client-key taking core functions')
    # call sites of internal_pdelete pass the literal false
    sites = 0
    for fn_ in crate.top_fns():
        for nd, anc in crate.calls(fn_, lambda c: c == f'{CORE}::internal_pdelete'):
            sites += 1
            bb = Bindings(crate, fn_)
            o = bb.origins(nd['args'][2])
            if o == {'lit(False)'}:
                rep.ok('C08.a', f'{short(fn_.path)}->internal_pdelete', loc(fn_, nd), 'skip_read_only_check = false')
            else:
                rep.violation('C08.a', f'{short(fn_.path)}->internal_pdelete', loc(fn_, nd), f'skip_read_only_check <- {sorted(o)}',
                              key=f'C08.a/internal_pdelete-caller/{fn_.path}', expected='literal false')
    rep.floor('C08.a', sites, 1, 'internal_pdelete call sites')
    # spub publishes on the key authorised at spub_init: the key comes from the per-client stream table
    f = crate.fn(f'{CORE}::spub')
    b = Bindings(crate, f)
    pc = crate.calls(f, lambda c: c == f'{CORE}::publish')
    if len(pc) == 1 and any('lookup_key' in x for x in b.origins(pc[0][0]['args'][1])):
        lk = crate.calls(f, lambda c: c == f'{CORE}::lookup_key')
        if lk and b.origins(lk[0][0]['args'][1]) == {'param(client_id)'} and b.origins(lk[0][0]['args'][2]) == {'param(transaction_id)'}:
            rep.ok('C08.a', 'Worterbuch::spub', loc(f, pc[0][0]), 'publishes on lookup_key(client_id, transaction_id)')
        else:
            rep.violation('C08.a', 'Worterbuch::spub', f.loc, 'stream key looked up with foreign operands', key='C08.a/spub/lookup')
    else:
        rep.violation('C08.a', 'Worterbuch::spub', f.loc, 'spub does not publish on the registered stream key', key='C08.a/spub/key')


# ---------------------------------------------------------------- C08.b decision table of the guard
class Unrec(Exception):
    pass


SEG_CONSTS = ['SYSTEM_TOPIC_ROOT', 'SYSTEM_TOPIC_CLIENTS', 'SYSTEM_TOPIC_GRAVE_GOODS', 'SYSTEM_TOPIC_LAST_WILL',
              'SYSTEM_TOPIC_CLIENT_NAME']


def _atom(e, inp, b):
    """evaluate an atomic condition of check_for_read_only_key under the abstract input"""
    k = e.get('k')
    if k == 'call':
        sh = short(callee(e))
        if sh == 'is_empty' and e['args']:
            o = b.origins(e['args'][0])
            if o == {'param(key)'}:
                return inp['empty']
            if any('split' in x for x in o):
                return False  # str::split always yields at least one item
        raise Unrec('call ' + sh)
    if k == 'binary' and e['op'] in ('Eq', 'Ne', 'Le', 'Lt', 'Ge', 'Gt'):
        l, r = e['l'], e['r']
        lo, ro = b.origins(l), b.origins(r)
        # client_id == INTERNAL_CLIENT_ID
        if lo == {'param(client_id)'} and any('INTERNAL_CLIENT_ID' in x for x in ro) or \
                ro == {'param(client_id)'} and any('INTERNAL_CLIENT_ID' in x for x in lo):
            v = inp['internal']
            return v if e['op'] == 'Eq' else (not v if e['op'] == 'Ne' else _raise('order on client id'))
        # path.len() <op> N
        for a, c, flip in ((l, r, False), (r, l, True)):
            if a.get('k') == 'call' and short(callee(a)) == 'len' and c.get('k') == 'lit':
                n = c['v']['v']
                ln = inp['len']
                op = e['op']
                if flip:
                    op = {'Lt': 'Gt', 'Le': 'Ge', 'Gt': 'Lt', 'Ge': 'Le'}.get(op, op)
                return {'Eq': ln == n, 'Ne': ln != n, 'Lt': ln < n, 'Le': ln <= n, 'Gt': ln > n, 'Ge': ln >= n}[op]
        # path.first() / path.get(i) ==/!= Some(&CONST): a checked access, None when the index is beyond the length
        for a, c in ((l, r), (r, l)):
            aa = _strip_refs(a)
            if aa.get('k') == 'call' and short(callee(aa)) in ('first', 'get') and _is_path_local(aa['args'][0], b):
                i = 0 if short(callee(aa)) == 'first' else (aa['args'][1]['v']['v'] if len(aa['args']) > 1 and aa['args'][1].get('k') == 'lit' else None)
                cc = _strip_refs(c)
                if i is None:
                    raise Unrec('get(<non-literal>)')
                if cc.get('k') == 'call' and (ctor_name(cc) or '').endswith('Some') and cc['args']:
                    if i >= inp['len']:
                        eq = False
                    else:
                        eq = _seg_equals(inp['segs'][i], cc['args'][0], b)
                elif (ctor_name(cc) or str(cc.get('path') or cc.get('ctor_of') or '')).endswith('None'):
                    eq = i >= inp['len']
                else:
                    raise Unrec('checked access compared with something else than Some(..) / None')
                if e['op'] == 'Eq':
                    return eq
                if e['op'] == 'Ne':
                    return not eq
                raise Unrec('ordering comparison on a segment')
        # path[i] ==/!= CONST   |   path[i] ==/!= client_id.to_string()
        for a, c in ((l, r), (r, l)):
            aa = a
            while aa.get('k') in ('ref',) or (aa.get('k') == 'unary' and aa.get('op') == 'Deref'):
                aa = aa['e']
            if aa.get('k') == 'index' and aa['i'].get('k') == 'lit':
                i = aa['i']['v']['v']
                if i >= inp['len']:
                    raise IndexError(i)
                seg = inp['segs'][i]
                co = b.origins(c)
                if co == {'param(client_id)'} or any('to_string' in x for x in co) and ('client_id' in str(c)[:400] or co == {'param(client_id)'}):
                    eq = (seg == 'OWN_ID')
                else:
                    names = [s for s in SEG_CONSTS if any(x.endswith(s + ')') for x in co)]
                    if len(names) != 1:
                        raise Unrec(f'segment compared with {sorted(co)}')
                    eq = (seg == names[0])
                if e['op'] == 'Eq':
                    return eq
                if e['op'] == 'Ne':
                    return not eq
                raise Unrec('ordering comparison on a segment')
        raise Unrec('comparison shape')
    raise Unrec('atom ' + str(k))


def _raise(m):
    raise Unrec(m)


def _strip_refs(a):
    while isinstance(a, dict) and (a.get('k') in ('ref',) or (a.get('k') == 'unary' and a.get('op') == 'Deref')):
        a = a['e']
    return a


def _is_path_local(e, b):
    return any('split' in x for x in b.origins(e))


def _seg_equals(seg, c, b):
    co = b.origins(c)
    if co == {'param(client_id)'}:
        return seg == 'OWN_ID'
    names = [s_ for s_ in SEG_CONSTS if any(x.endswith(s_ + ')') for x in co)]
    if len(names) != 1:
        raise Unrec(f'segment compared with {sorted(co)}')
    return seg == names[0]


def _cond(e, inp, b):
    k = e.get('k')
    if k == 'binary' and e['op'] == 'Or':
        return _cond(e['l'], inp, b) or _cond(e['r'], inp, b)
    if k == 'binary' and e['op'] == 'And':
        return _cond(e['l'], inp, b) and _cond(e['r'], inp, b)
    if k == 'unary' and e['op'] == 'Not':
        return not _cond(e['e'], inp, b)
    if k == 'block' and not e['stmts'] and 'tail' in e:
        return _cond(e['tail'], inp, b)
    if k == 'path' and e.get('res') == 'local':
        d = b.deref_local(e)
        if d is not e and isinstance(d, dict):
            return _cond(d, inp, b)
    return _atom(e, inp, b)


def _outcome(e):
    while e.get('k') == 'block':
        if 'tail' in e:
            e = e['tail']
        elif e['stmts']:
            e = e['stmts'][-1]
        else:
            raise Unrec('empty block')
    if e.get('k') == 'return':
        e = e['e']
    if e.get('k') == 'call' and short(callee(e)) == 'Ok':
        return 'Ok'
    if e.get('k') == 'call' and short(callee(e)) == 'Err':
        return 'Err:' + short(ctor_name(e['args'][0]) or '?')
    raise Unrec('outcome ' + str(e.get('k')))


def _run_chain(body, inp, b):
    items = list(body['stmts']) + ([body['tail']] if 'tail' in body else [])
    for st in items:
        k = st.get('k')
        if k == 'let' or k == 'nop':
            continue
        if k == 'if':
            if _cond(st['cond'], inp, b):
                return _outcome(st['then'])
            if 'else' in st:
                return _outcome(st['else'])
            continue
        if k in ('return', 'call'):
            return _outcome(st)
        if k == 'match':
            # `match path[i] { A | B => <outcome>, _ => <outcome> }`
            sc = _strip_refs(st['scrut'])
            if sc.get('k') != 'index' or sc['i'].get('k') != 'lit' or not _is_path_local(sc['e'], b):
                raise Unrec('match on something else than a path segment')
            i = sc['i']['v']['v']
            if i >= inp['len']:
                raise IndexError(i)
            seg = inp['segs'][i]
            for arm in st['arms']:
                if 'guard' in arm:
                    raise Unrec('guarded arm')
                alts = arm['pat']['alts'] if arm['pat'].get('k') == 'por' else [arm['pat']]
                hit = False
                for alt in alts:
                    if alt.get('k') in ('wild', 'bind') or alt.get('k') is None and False:
                        hit = True
                    else:
                        txt = str(alt.get('path') or alt.get('ctor_of') or alt.get('v') or alt)
                        names = [s_ for s_ in SEG_CONSTS if s_ in txt]
                        if len(names) != 1:
                            raise Unrec('arm pattern ' + txt[:60])
                        hit = hit or seg == names[0]
                if hit:
                    return _outcome(arm['body'])
            raise Unrec('no arm')
        raise Unrec('statement ' + str(k))
    raise Unrec('falls off the end')


def rule_b(prog, rep):
    rep.rule('C08.b', 'T5', 'the guard is the documented table: check_for_read_only_key evaluated over (empty?, internal client?, '
             'segment0 = $SYS?, number of segments 1..5, segment1 = clients?, segment2 = own id?, segment3 in {graveGoods, '
             'lastWill, clientName, other}) yields Ok exactly for: the internal client; keys outside $SYS; the client\'s own '
             'three registrations; Err(EmptyKey) for the empty key and Err(ReadOnlyKey) otherwise; no index beyond the length')
    crate = prog.crate(WB)
    f = crate.fn('worterbuch::check_for_read_only_key')
    b = Bindings(crate, f)
    body = f.hir
    rows = 0
    bad = {}
    try:
        for empty, internal, s0, ln, s1, s2, s3 in itertools.product(
                (False, True), (False, True), ('SYSTEM_TOPIC_ROOT', 'other'), (1, 2, 3, 4, 5), ('SYSTEM_TOPIC_CLIENTS', 'other'),
                ('OWN_ID', 'other'), ('SYSTEM_TOPIC_GRAVE_GOODS', 'SYSTEM_TOPIC_LAST_WILL', 'SYSTEM_TOPIC_CLIENT_NAME', 'other')):
            if empty and (ln != 1 or s0 != 'other'):
                continue
            inp = {'empty': empty, 'internal': internal, 'len': ln, 'segs': [s0, s1, s2, s3, 'x'][:ln]}
            rows += 1
            try:
                got = _run_chain(body, inp, b)
            except IndexError as ie:
                got = f'PANIC index {ie} beyond len {ln}'
            if empty:
                want = 'Err:EmptyKey'
            elif internal or s0 != 'SYSTEM_TOPIC_ROOT':
                want = 'Ok'
            elif ln > 3 and s1 == 'SYSTEM_TOPIC_CLIENTS' and s2 == 'OWN_ID' and s3 != 'other':
                want = 'Ok'
            else:
                want = 'Err:ReadOnlyKey'
            if got != want:
                # rows that differ only in don't-care positions collapse onto one key
                key = f'empty={empty},internal={internal},seg0={s0 == "SYSTEM_TOPIC_ROOT"},len={ln},' \
                      f'clients={s1 == "SYSTEM_TOPIC_CLIENTS"},own={s2 == "OWN_ID"},seg3={s3}'
                bad.setdefault((got, want), key)
    except Unrec as e:
        rep.violation('C08.b', 'check_for_read_only_key', f.loc, f'unrecognised-shape: {e}', key='C08.b/unrecognised-shape')
        return
    if bad:
        for (got, want), key in sorted(bad.items()):
            rep.violation('C08.b', f'row({key})', f.loc, f'guard({key}) = {got}', key=f'C08.b/{got}/{want}/{key}', expected=want)
    else:
        rep.ok('C08.b', 'check_for_read_only_key', f.loc, f'{rows} abstract rows agree with the documented table')
    rep.floor('C08.b', rows, 340, 'table rows')


def rule_c(prog, rep):
    rep.rule('C08.c', 'T6', 'pattern awareness (guard <-> consumer): where the string handed to the guard is afterwards interpreted '
             'with KeySegment::parse (pattern semantics), the guard must itself be pattern aware (reason about `?`/`#` first '
             'segments); the guard compares only literal segments')
    crate = prog.crate(WB)
    g = crate.fn('worterbuch::check_for_read_only_key')
    aware = any(nd.get('k') == 'call' and ('KeySegment' in callee(nd) or 'pattern_matches' in callee(nd)) for nd, a in crate.walk_fn(g)) or \
        any(nd.get('k') == 'lit' and nd['v'].get('v') in ('?', '#') for nd, a in crate.walk_fn(g))
    n = 0
    for fn_ in crate.top_fns():
        if not fn_.path.startswith(CORE + '::'):
            continue
        gc = crate.calls(fn_, lambda c: c.endswith('worterbuch::check_for_read_only_key'))
        if not gc:
            continue
        b = Bindings(crate, fn_)
        parsed = [nd for nd, a in crate.calls(fn_, lambda c: c.endswith('KeySegment::parse'))]
        for p in parsed:
            if b.origins(p['args'][0]) == b.origins(gc[0][0]['args'][0]):
                n += 1
                if aware:
                    rep.ok('C08.c', f'{short(fn_.path)}', loc(fn_, p), 'guarded string is a pattern and the guard is pattern aware')
                else:
                    rep.violation('C08.c', f'{short(fn_.path)}', loc(fn_, p), 'the guarded string is interpreted as a pattern '
                                  '(KeySegment::parse) but the guard compares literal segments only: `#`, `?/..` reach $SYS',
                                  key=f'C08.c/{short(fn_.path)}/pattern-unaware-guard')
    rep.floor('C08.c', n, 1, 'guarded strings with pattern semantics')


def rule_d(prog, rep):
    rep.rule('C08.d', 'T7', 'the internal identity is not forgeable: no function of the socket / REST front ends passes '
             'INTERNAL_CLIENT_ID (or anything not derived from ClientId::new_v4() / the session\'s own id) as client id of a '
             'core request; the session id is created by the accept loop')
    crate = prog.crate(WB)
    n = 0
    bad = 0
    for fn_ in crate.top_fns():
        if not (fn_.path.startswith('server::')):
            continue
        bb = None
        for nd, a in crate.walk_fn(fn_):
            # the constant may be compared with (logging decisions) but never handed on as an operand
            if nd.get('k') in ('call', 'struct'):
                args = nd['args'] if nd.get('k') == 'call' else [x['e'] for x in nd['fields']]
                if nd.get('k') == 'call' and short(callee(nd)) in ('eq', 'ne'):
                    continue
                for x in args:
                    if x.get('k') == 'closure' or 'INTERNAL_CLIENT_ID' not in str(x)[:3000]:
                        continue
                    bb = bb or Bindings(crate, fn_)
                    if any('INTERNAL_CLIENT_ID' in o for o in bb.origins(x)):
                        bad += 1
                        rep.violation('C08.d', f'{fn_.path}', loc(fn_, nd), 'front-end code passes INTERNAL_CLIENT_ID as an operand of '
                                      f'{callee(nd) or nd.get("path")}', key=f'C08.d/{fn_.path}/internal-id')
    # ids of sessions
    for name in ('server::tcp::start', 'server::unix::start'):
        try:
            f = crate.fn(name)
        except AnchorMissing:
            cands = [x for x in crate.top_fns() if x.path.startswith(name.rsplit('::', 1)[0] + '::') and
                     any('new_v4' in callee(nd) for nd, a in crate.calls(x))]
            if not cands:
                raise
            f = cands[0]
        b = Bindings(crate, f)
        serve = [nd for nd, a in crate.calls(f, lambda c: short(c) == 'serve')]
        for s in serve:
            n += 1
            ids = [a for a in s['args'] if 'new_v4' in ''.join(b.origins(a))]
            if ids:
                rep.ok('C08.d', f'{short(name.rsplit("::", 1)[0])}::serve', loc(f, s), 'session id <- ClientId::new_v4()')
            else:
                bad += 1
                rep.violation('C08.d', f'{name}', loc(f, s), 'session id not created by ClientId::new_v4()', key=f'C08.d/{name}/id')
    # V0 / V1 handlers pass self.client_id
    for hname, f in handlers(crate):
        b = Bindings(crate, f)
        for nd, anc in crate.walk_fn(f):
            if nd.get('k') == 'call' and 'WbApi for server::CloneableWbApi' in callee(nd):
                for a in nd['args'][1:]:
                    o = b.origins(a)
                    if any('client_id' in x for x in o):
                        n += 1
                        if o <= {'param(self).client_id', 'param(self).v0.client_id'}:
                            pass
                        else:
                            bad += 1
                            rep.violation('C08.d', f'{hname}:{short(callee(nd))}', loc(f, nd), f'client id operand <- {sorted(o)}',
                                          key=f'C08.d/{hname}/{short(callee(nd))}')
    if not bad:
        rep.ok('C08.d', 'front-ends', '', f'{n} client-id operands in front-end code derive from the session\'s own id')
    rep.floor('C08.d', n, 10, 'client-id operands')


RULES = [('C08.a', rule_a), ('C08.b', rule_b), ('C08.c', rule_c), ('C08.d', rule_d)]
