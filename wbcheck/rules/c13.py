"""C13 — every request gets exactly one answer carrying its own transaction id (structural clauses)."""
from ..ir import callee, short, walk, ctor_name, pat_variants, strip_not, guards, AnchorMissing
from ..trace import Tracer, ok_exits, err_exits, count, base, peel
from ..prov import Bindings
from .common import *

NOT_DECIDED = ('pipelining across concurrent sessions; the content of the answers; that session-level refusals '
               '(request before authorization, v1 message on a v0 session) close the session instead of answering')

# request kind -> (ServerMessage variant, event constructor) of the success answer   [spec: README / specification.md]
ANSWER = {
    'V0::get': ('State', 'StateEvent::Value'), 'V0::pget': ('PState', 'PStateEvent::KeyValuePairs'),
    'V0::set': ('Ack', None), 'V0::spub_init': ('Ack', None), 'V0::spub': ('Ack', None), 'V0::publish': ('Ack', None),
    'V0::subscribe': ('Ack', None), 'V0::psubscribe': ('Ack', None), 'V0::unsubscribe': ('Ack', None),
    'V0::delete': ('State', 'StateEvent::Deleted'), 'V0::pdelete': ('PState', 'PStateEvent::Deleted'),
    'V0::ls': ('LsState', None), 'V0::pls': ('LsState', None), 'V0::subscribe_ls': ('Ack', None),
    'V0::unsubscribe_ls': ('Ack', None), 'V1::cget': ('CState', None), 'V1::cset': ('Ack', None), 'V1::lock': ('Ack', None),
    'V1::acquire_lock': ('Ack', None), 'V1::release_lock': ('Ack', None),
}
# ClientMessage variant -> handler that must be called in its dispatch arm
DISPATCH = {
    'Get': 'V0::get', 'PGet': 'V0::pget', 'Set': 'V0::set', 'SPubInit': 'V0::spub_init', 'SPub': 'V0::spub',
    'Publish': 'V0::publish', 'Subscribe': 'V0::subscribe', 'PSubscribe': 'V0::psubscribe',
    'Unsubscribe': 'V0::unsubscribe', 'Delete': 'V0::delete', 'PDelete': 'V0::pdelete', 'Ls': 'V0::ls', 'PLs': 'V0::pls',
    'SubscribeLs': 'V0::subscribe_ls', 'UnsubscribeLs': 'V0::unsubscribe_ls', 'CGet': 'V1::cget', 'CSet': 'V1::cset',
    'Lock': 'V1::lock', 'AcquireLock': 'V1::acquire_lock', 'ReleaseLock': 'V1::release_lock',
    'AuthorizationRequest': 'V0::authorize',
}
# variants that have no handler (answered elsewhere / not implemented), with reason
NO_HANDLER = {'ProtocolSwitchRequest': 'answered by Proto::process_incoming_message with Ack{0}',
              'Transform': 'not implemented by the server: the session is closed with NotImplemented (C17 allows it)'}


def _classify_factory(crate, f):
    binds = Bindings(crate, f)

    def classify(n, anc):
        if n.get('k') != 'call':
            return None
        c = callee(n)
        if c.endswith('V0::handle_store_error'):
            return 'resp'
        if server_message_sent(n, binds):
            return 'resp'
        if is_spawn(c):
            return 'spawn'
        return None
    return classify, binds


def task_mode(call, clo):
    if is_spawn(callee(call)):
        return ('task', 'task')
    return Tracer.default_closure_mode(call, clo)


def rule_a(prog, rep):
    """exactly one terminal message on every Ok path of every handler"""
    rep.rule('C13.a', 'T3', 'every path of each of the 20 protocol handlers that returns Ok sends exactly one terminal '
             'message (handle_store_error or tx.send(ServerMessage::..)); a send inside a spawned task counts when it is '
             'not in a loop (acquire_lock confirmation), sends in a loop of a spawned task are event forwarding; an Err '
             'exit is only allowed after an attempted answer (failed send to the client)')
    crate = prog.crate(WB)
    n = 0
    for name, f in handlers(crate):
        classify, _ = _classify_factory(crate, f)
        tr = Tracer(crate, classify, closure_mode=task_mode, inline_local=False)
        paths = tr.run_fn(f)
        bad = []
        for (ex, t, v) in ok_exits(paths):
            c = sum(1 for e in t if e == 'resp') + sum(2 for e in t if e == 'resp*') + sum(1 for e in t if e == 'task:resp')
            if c != 1:
                bad.append(('Ok', c, t))
        for (ex, t, v) in err_exits(paths):
            c = sum(1 for e in t if base(e) in ('resp', 'task:resp'))
            if c == 0:
                bad.append(('Err', c, t))
        n += 1
        if bad:
            kind, c, t = bad[0]
            rep.violation('C13.a', name, f.loc, f'path to {kind} exit with {c} terminal messages, trace={list(t)}',
                          key=f'C13.a/{name}/{kind}/{c}', expected='exactly 1')
        else:
            rep.ok('C13.a', name, f.loc, f'{len(paths)} abstract paths, each Ok path has exactly one terminal message')
    rep.floor('C13.a', n, 20, 'handlers')


def _responses(crate, f, binds):
    out = []
    for n, anc in crate.walk_fn(f):
        if n.get('k') == 'call':
            sm = server_message_sent(n, binds)
            if sm:
                for (variant, payload, _arm, _scrut) in sm.alts:
                    out.append((n, anc, variant, payload))
    return out


def rule_b(prog, rep):
    """the right kind of answer"""
    rep.rule('C13.b', 'T4', 'the ServerMessage variant (and event constructor) each handler sends is the one the protocol '
             'assigns to the request kind; the only other variant a handler may send is Err')
    crate = prog.crate(WB)
    for name, f in handlers(crate):
        binds = Bindings(crate, f)
        want, want_ev = ANSWER[name]
        resp = _responses(crate, f, binds)
        # subscribe handlers also forward events from a spawned loop: those sends are judged by C03/C13.c
        in_task = lambda anc: any(a.get('k') == 'closure' and 'spawn' in str(anc) for a in anc)
        found = False
        for n, anc, variant, payload in resp:
            inloop = any(a.get('k') in ('loop', 'for') for a in anc)
            if inloop:
                continue
            if variant == 'Err':
                continue
            if variant != want:
                rep.violation('C13.b', f'{name}:{variant}', loc(f, n), f'{name} answers with ServerMessage::{variant}',
                              key=f'C13.b/{name}/{variant}', expected=want)
                continue
            found = True
            if want_ev:
                ev = binds.field_of_struct(payload, 'event') if payload else None
                evc = ctor_name(binds.deref_local(ev)) if ev else None
                if not evc or not evc.endswith(want_ev):
                    rep.violation('C13.b', f'{name}:event', loc(f, n), f'{name} answers with event {evc}',
                                  key=f'C13.b/{name}/event/{short(evc or "?")}', expected=want_ev)
                    continue
            rep.ok('C13.b', f'{name}:{variant}', loc(f, n), f'success answer is {variant}' + (f'/{want_ev}' if want_ev else ''))
        if not found:
            rep.violation('C13.b', f'{name}:missing', f.loc, f'{name} never sends ServerMessage::{want}',
                          key=f'C13.b/{name}/missing', expected=want)


def rule_c(prog, rep):
    """the right transaction id"""
    rep.rule('C13.c', 'T7', 'transaction_id of every answer / forwarded event / handle_store_error call in a handler '
             'derives from msg.transaction_id of the request; handle_store_error copies its parameter into '
             'Err.transaction_id and takes the code from ErrorCode::from(&e)')
    crate = prog.crate(WB)
    n = 0
    for name, f in handlers(crate):
        binds = Bindings(crate, f)
        for node, anc, variant, payload in _responses(crate, f, binds):
            tid = binds.field_of_struct(payload, 'transaction_id') if payload else None
            o = binds.origins(tid) if tid else {'?'}
            n += 1
            if o == {'param(msg).transaction_id'}:
                rep.ok('C13.c', f'{name}:{variant}', loc(f, node), 'transaction_id <- msg.transaction_id')
            else:
                rep.violation('C13.c', f'{name}:{variant}', loc(f, node), f'transaction_id derives from {sorted(o)}',
                              key=f'C13.c/{name}/{variant}/{"|".join(sorted(o))}', expected='param(msg).transaction_id')
        for node, anc in crate.calls(f, lambda c: c.endswith('V0::handle_store_error')):
            o = binds.origins(node['args'][2]) if len(node['args']) > 2 else {'?'}
            n += 1
            if o == {'param(msg).transaction_id'}:
                rep.ok('C13.c', f'{name}:handle_store_error', loc(f, node), 'transaction_id <- msg.transaction_id')
            else:
                rep.violation('C13.c', f'{name}:handle_store_error', loc(f, node), f'transaction_id derives from {sorted(o)}',
                              key=f'C13.c/{name}/handle_store_error/{"|".join(sorted(o))}',
                              expected='param(msg).transaction_id')
    rep.floor('C13.c', n, 40, 'answer sites')
    # forward_loop / aggregate_loop (psubscribe forwarders)
    fl = crate.fn('server::common::protocol::v0::forward_loop')
    b = Bindings(crate, fl)
    for node, anc, variant, payload in _responses(crate, fl, b):
        tid = b.field_of_struct(payload, 'transaction_id')
        o = b.origins(tid) if tid else {'?'}
        if o == {'param(transaction_id)'}:
            rep.ok('C13.c', 'forward_loop', loc(fl, node), 'event id <- parameter transaction_id')
        else:
            rep.violation('C13.c', 'forward_loop', loc(fl, node), f'event id derives from {sorted(o)}',
                          key='C13.c/forward_loop/' + '|'.join(sorted(o)))
    ps = crate.fn(f'{V0}::psubscribe')
    b = Bindings(crate, ps)
    calls = crate.calls(ps, lambda c: c.endswith('v0::forward_loop'))
    if not calls:
        rep.violation('C13.c', 'psubscribe:forward_loop', ps.loc, 'psubscribe no longer calls forward_loop',
                      key='C13.c/psubscribe/forward_loop/missing')
    for node, anc in calls:
        o = b.origins(node['args'][1])
        if o == {'param(msg).transaction_id'}:
            rep.ok('C13.c', 'psubscribe:forward_loop', loc(ps, node), 'forwarder id <- msg.transaction_id')
        else:
            rep.violation('C13.c', 'psubscribe:forward_loop', loc(ps, node), f'forwarder id derives from {sorted(o)}',
                          key='C13.c/psubscribe/forward_loop/' + '|'.join(sorted(o)))
    for node, anc in crate.walk_fn(ps):
        if node.get('k') == 'struct' and (node.get('path') or '').endswith('SubscriptionInfo'):
            for fl_ in node['fields']:
                if fl_['name'] == 'transaction_id':
                    o = b.origins(fl_['e'])
                    if o == {'param(msg).transaction_id'}:
                        rep.ok('C13.c', 'psubscribe:SubscriptionInfo', loc(ps, node), 'aggregator id <- msg.transaction_id')
                    else:
                        rep.violation('C13.c', 'psubscribe:SubscriptionInfo', loc(ps, node), f'aggregator id derives from {sorted(o)}',
                                      key='C13.c/psubscribe/SubscriptionInfo/' + '|'.join(sorted(o)))
    # handle_store_error itself
    h = crate.fn(f'{V0}::handle_store_error')
    b = Bindings(crate, h)
    seen = False
    for node, anc in crate.walk_fn(h):
        if node.get('k') == 'struct' and (node.get('path') or '').endswith('worterbuch_common::Err'):
            seen = True
            fields = {x['name']: x['e'] for x in node['fields']}
            o = b.origins(fields.get('transaction_id'))
            ec = b.deref_local(fields.get('error_code'))
            oc = b.origins(ec['args'][0]) if isinstance(ec, dict) and ec.get('k') == 'call' and ec['args'] else {'?'}
            okc = isinstance(ec, dict) and ec.get('k') == 'call' and 'ErrorCode' in callee(ec) and \
                short(callee(ec)) == 'from' and oc == {'param(e)'}
            if o == {'param(transaction_id)'} and okc:
                rep.ok('C13.c', 'handle_store_error:Err', loc(h, node), 'Err{transaction_id<-param, error_code<-ErrorCode::from(&e)}')
            else:
                rep.violation('C13.c', 'handle_store_error:Err', loc(h, node),
                              f'Err.transaction_id from {sorted(o)}, error_code from {sorted(oc)}',
                              key='C13.c/handle_store_error/Err')
    if not seen:
        raise AnchorMissing('Err struct literal in V0::handle_store_error')


def rule_d(prog, rep):
    """core errors never end the session"""
    rep.rule('C13.d', 'T3', 'in the handlers no `?` is applied to the result of a WbApi (core) call: a request-level error '
             'must be answered, not propagated (propagation closes the session)')
    crate = prog.crate(WB)
    n = 0
    for name, f in handlers(crate):
        for node, anc in crate.walk_fn(f):
            if node.get('k') == 'call' and 'WbApi for server::CloneableWbApi' in callee(node):
                if any(a.get('k') == 'closure' and a.get('ckind', '').startswith('coroutine') and i > 1
                       for i, a in enumerate(anc)) and any(a.get('k') == 'call' and is_spawn(callee(a)) for a in anc):
                    continue  # cleanup call inside the spawned forwarder, not part of answering
                n += 1
                m = short(callee(node))
                # climb: await / transparent adaptors; a `try` directly above is the violation
                chain = list(anc)
                bad = False
                cur = node
                for a in reversed(chain):
                    k = a.get('k')
                    if k == 'await' or (k == 'call' and cur in a['args'][:1] and short(callee(a)) in
                                        ('context', 'map_err', 'with_context')):
                        cur = a
                        continue
                    if k == 'try':
                        bad = True
                    break
                if m == 'config':
                    continue
                if bad:
                    rep.violation('C13.d', f'{name}:{m}', loc(f, node), f'`?` applied to the result of WbApi::{m}',
                                  key=f'C13.d/{name}/{m}', expected='match / if let Err(e) => handle_store_error')
                else:
                    rep.ok('C13.d', f'{name}:{m}', loc(f, node), 'result is matched, not propagated')
    rep.floor('C13.d', n, 20, 'WbApi call sites in handlers')


def _dispatch_arms(crate, f, enum_path):
    """arms of the (single) match on the ClientMessage parameter in f's body"""
    for node, anc in crate.walk_fn(f):
        if node.get('k') == 'match' and 'ClientMessage' in str(node.get('scrut_ty')):
            return node
    raise AnchorMissing(f'match over ClientMessage in {f.path}')


def rule_e(prog, rep):
    """dispatch is total and calls the same-named handler"""
    rep.rule('C13.e', 'T4', 'V1::process_incoming_message + V0::process_incoming_message cover every ClientMessage variant; '
             'each arm calls the handler of that request kind; the only catch-all is V1 delegating to V0; '
             'ProtocolSwitchRequest is answered with Ack{transaction_id: 0} by Proto')
    crate = prog.crate(WB)
    common = prog.crate(COMMON)
    variants = enum_variants(common, 'ClientMessage')
    v0 = crate.fn(f'{V0}::process_incoming_message')
    v1 = crate.fn(f'{V1}::process_incoming_message')
    m0 = _dispatch_arms(crate, v0, 'ClientMessage')
    m1 = _dispatch_arms(crate, v1, 'ClientMessage')
    table = {}
    for who, m, f in (('V1', m1, v1), ('V0', m0, v0)):
        for arm in m['arms']:
            vs = pat_variants(arm['pat'])
            calls = {short(callee(n)) for n, a in walk(arm['body']) if n.get('k') == 'call'}
            calls_full = {callee(n) for n, a in walk(arm['body']) if n.get('k') == 'call'}
            for v in vs:
                if v == '_':
                    if who == 'V0':
                        rep.violation('C13.e', 'V0:catch-all', f'{f.file}:{arm.get("ln")}', 'V0 dispatch has a catch-all arm '
                                      'that hides request kinds', key='C13.e/V0/catch-all')
                    else:
                        if any(c.endswith('V0::process_incoming_message') for c in calls_full):
                            rep.ok('C13.e', 'V1:catch-all', f'{f.file}:{arm.get("ln")}', 'delegates to V0::process_incoming_message')
                        else:
                            rep.violation('C13.e', 'V1:catch-all', f'{f.file}:{arm.get("ln")}', 'V1 catch-all does not delegate to V0',
                                          key='C13.e/V1/catch-all')
                    continue
                sv = short(v)
                if sv not in table:
                    table[sv] = (who, calls, calls_full, f, arm)
    n = 0
    for v in variants:
        n += 1
        if v not in table:
            rep.violation('C13.e', f'variant:{v}', '', f'ClientMessage::{v} has no dispatch arm', key=f'C13.e/variant/{v}/missing')
            continue
        who, calls, calls_full, f, arm = table[v]
        if v in NO_HANDLER:
            rep.ok('C13.e', f'variant:{v}', f'{f.file}:{arm.get("ln")}', NO_HANDLER[v])
            continue
        want = DISPATCH.get(v)
        if want is None:
            rep.violation('C13.e', f'variant:{v}', f'{f.file}:{arm.get("ln")}', f'ClientMessage::{v} is not in the spec table of '
                          'this rule (new request kind?)', key=f'C13.e/variant/{v}/unknown')
            continue
        wcls, wfn = want.split('::')
        hit = [c for c in calls_full if c.endswith(f'{wcls}::{wfn}')]
        handlers_called = {c for c in calls_full if any(c.endswith(h) for h in DISPATCH.values())}
        if hit and len(handlers_called) == 1:
            rep.ok('C13.e', f'variant:{v}', f'{f.file}:{arm.get("ln")}', f'{who} arm calls {want}')
        else:
            rep.violation('C13.e', f'variant:{v}', f'{f.file}:{arm.get("ln")}', f'{who} arm for {v} calls '
                          f'{sorted(short(c) for c in handlers_called) or "no handler"}', key=f'C13.e/variant/{v}/handler',
                          expected=want)
    rep.floor('C13.e', n, 23, 'ClientMessage variants')
    # Proto: ProtocolSwitchRequest answered with Ack{0}
    p = crate.fn(f'{PROTO}::process_incoming_message')
    b = Bindings(crate, p)
    acks = [(n_, pl) for n_, anc, var, pl in _responses(crate, p, b) if var == 'Ack']
    if len(acks) == 1:
        tid = b.field_of_struct(acks[0][1], 'transaction_id')
        o = b.origins(tid) if tid else {'?'}
        if o == {'lit(0)'}:
            rep.ok('C13.e', 'Proto:ProtocolSwitchRequest', loc(p, acks[0][0]), 'answered with Ack{0}')
        else:
            rep.violation('C13.e', 'Proto:ProtocolSwitchRequest', loc(p, acks[0][0]), f'Ack id from {sorted(o)}',
                          key='C13.e/Proto/ack-id')
    else:
        rep.violation('C13.e', 'Proto:ProtocolSwitchRequest', p.loc, f'{len(acks)} Ack sends in Proto::process_incoming_message',
                      key='C13.e/Proto/ack-count', expected='1')


# WorterbuchError variant -> ErrorCode variant where the names differ
RENAMES = {'SerDeError': 'SerdeError'}
# variants that are never turned into a protocol Err (only REST / internal), with reason
LATENT = {'FeatureDisabled': 'only constructed by REST profiling handlers, which answer with HTTP status codes'}


def rule_f(prog, rep):
    rep.rule('C13.f', 'T4', 'From<&WorterbuchError> for ErrorCode maps every error variant to the same-named code '
             '(renames tabled), without a catch-all arm')
    common = prog.crate(COMMON)
    cands = [f for f in common.fns.values() if f.kind == 'AssocFn' and short(f.path) == 'from' and
             'ErrorCode' in f.path and 'WorterbuchError' in f.sig.split('->')[0]]
    if len(cands) != 1:
        raise AnchorMissing(f'From<&WorterbuchError> for ErrorCode ({len(cands)} candidates)')
    f = cands[0]
    m = None
    for node, anc in walk(f.hir):
        if node.get('k') == 'match':
            m = node
            break
    if m is None:
        raise AnchorMissing('match in From<&WorterbuchError> for ErrorCode')
    variants = enum_variants(common, 'error::WorterbuchError')
    codes = set(enum_variants(common, 'ErrorCode'))
    seen = {}
    for arm in m['arms']:
        vs = pat_variants(arm['pat'])
        body = arm['body']
        tgt = None
        for node, anc in walk(body):
            c = ctor_name(node)
            if c and 'ErrorCode::' in c:
                tgt = short(c)
        for v in vs:
            if v == '_':
                rep.violation('C13.f', 'catch-all', f'{f.file}:{arm.get("ln")}', 'catch-all arm hides error variants',
                              key='C13.f/catch-all')
            else:
                seen[short(v)] = (tgt, arm)
    n = 0
    for v in variants:
        n += 1
        if v not in seen:
            rep.violation('C13.f', f'{v}', f.loc, f'WorterbuchError::{v} not mapped', key=f'C13.f/{v}/missing')
            continue
        tgt, arm = seen[v]
        want = RENAMES.get(v, v)
        if want not in codes:
            # no same-named code (modulo case): the generic code is the expected one
            alt = [c for c in codes if c.lower() == v.lower()]
            want = alt[0] if alt else 'Other'
        if tgt == want:
            rep.ok('C13.f', v, f'{f.file}:{arm.get("ln")}', f'-> ErrorCode::{tgt}')
        elif v in LATENT:
            rep.ok('C13.f', v, f'{f.file}:{arm.get("ln")}', f'-> ErrorCode::{tgt} (latent mismatch, not a violation: {LATENT[v]})')
            rep.note(f'latent: WorterbuchError::{v} maps to ErrorCode::{tgt}; {LATENT[v]}')
        else:
            rep.violation('C13.f', v, f'{f.file}:{arm.get("ln")}', f'WorterbuchError::{v} -> ErrorCode::{tgt}',
                          key=f'C13.f/{v}/{tgt}', expected=f'ErrorCode::{want}')
    rep.floor('C13.f', n, 20, 'WorterbuchError variants')


def rule_g(prog, rep, rid='C13.g'):
    rep.rule(rid, 'T2', 'in V0::{subscribe,psubscribe,subscribe_ls} the Ack send precedes the spawn of the forwarding '
             'task on every path, the forwarder is spawned exactly once per Ok path that acknowledged')
    crate = prog.crate(WB)
    for h in ('subscribe', 'psubscribe', 'subscribe_ls'):
        f = crate.fn(f'{V0}::{h}')
        binds = Bindings(crate, f)

        def classify(n, anc, binds=binds):
            if n.get('k') != 'call':
                return None
            c = callee(n)
            sm = server_message_sent(n, binds)
            if sm and sm[0] == 'Ack':
                return 'ack'
            if c.endswith('V0::handle_store_error'):
                return 'err'
            if is_spawn(c):
                return 'spawn'
            return None
        paths = Tracer(crate, classify).run_fn(f)
        bad = None
        nsp = 0
        for (ex, t, v) in paths:
            tb = [base(x) for x in t]
            if 'spawn' in tb:
                nsp += 1
                if 'ack' not in tb or tb.index('ack') > tb.index('spawn') or tb.count('spawn') != 1 or 'err' in tb:
                    bad = t
        if bad is not None:
            rep.violation(rid, f'V0::{h}', f.loc, f'forwarder spawned before / without the Ack: trace={list(bad)}',
                          key=f'{rid}/V0::{h}/order', expected='ack before spawn')
        elif nsp == 0:
            rep.violation(rid, f'V0::{h}', f.loc, 'no path spawns a forwarding task', key=f'{rid}/V0::{h}/no-spawn')
        else:
            rep.ok(rid, f'V0::{h}', f.loc, f'{nsp} paths spawn the forwarder, all after the Ack')


def rule_h(prog, rep):
    rep.rule('C13.h', 'T3+T4', 'every decoded request reaches a dispatcher and the session goes on: in Proto::process_incoming_message '
             'each ProtocolHandler variant delegates to the process_incoming_message of its own version (result propagated with '
             '`?`), a decoded request ends in Ok(true) (keep reading: the next pipelined request is served), end of input and an '
             'undecodable line end in Ok(false); the serve loops stop reading exactly on false')
    crate = prog.crate(WB)
    f = crate.fn(f'{PROTO}::process_incoming_message')
    ms = [nd for nd, a in crate.walk_fn(f) if nd.get('k') == 'match' and 'ProtocolHandler' in str(nd.get('scrut_ty'))]
    if len(ms) != 1:
        raise AnchorMissing(f'match over ProtocolHandler in Proto::process_incoming_message ({len(ms)})')
    want = {'V0': f'{V0}::process_incoming_message', 'V1': f'{V1}::process_incoming_message'}
    seen_v = set()
    for arm in ms[0]['arms']:
        for v in pat_variants(arm['pat']):
            sv = short(v)
            seen_v.add(sv)
            if sv not in want:
                rep.violation('C13.h', f'Proto:{sv}', f'{f.file}:{arm.get("ln")}', 'catch-all / unknown arm in the version dispatch', key=f'C13.h/Proto/{sv}')
                continue
            calls = [(nd, a) for nd, a in walk(arm['body']) if nd.get('k') == 'call' and callee(nd) == want[sv]]
            good = len(calls) == 1
            if good:
                nd, anc = calls[0]
                chain = [x for x in anc if isinstance(x, dict)]
                par = chain[-1] if chain else {}
                if par.get('k') == 'await':
                    par = chain[-2] if len(chain) > 1 else {}
                good = par.get('k') == 'try'
            if good:
                rep.ok('C13.h', f'Proto:{sv}', f'{f.file}:{arm.get("ln")}', f'delegates to {short(want[sv])} of {sv} with `?`')
            else:
                rep.violation('C13.h', f'Proto:{sv}', f'{f.file}:{arm.get("ln")}', f'the {sv} arm does not hand the request to {want[sv]} (with `?`)',
                              key=f'C13.h/Proto/{sv}/delegation')
    for sv in want:
        if sv not in seen_v:
            rep.violation('C13.h', f'Proto:{sv}', f.loc, f'no arm for ProtocolHandler::{sv}', key=f'C13.h/Proto/{sv}/missing')

    def classify(nd, anc):
        if nd.get('k') != 'call':
            return None
        c = callee(nd)
        if c in want.values():
            return 'dispatch'
        cn = ctor_name(nd)
        if cn and short(cn) == 'Ok' and nd['args'] and nd['args'][0].get('k') == 'lit' and isinstance(nd['args'][0]['v'].get('v'), bool):
            return 'ret:' + str(nd['args'][0]['v']['v'])
        if short(c) == 'from_str' and 'serde_json' in c:
            return 'decode'
        return None
    paths = Tracer(crate, classify, closure_mode=lambda c_, cl: "inline", inline_local=False).run_fn(f)
    problems = []
    n_disp = 0
    for (ex, t, v) in ok_exits(paths):
        tb = [base(x) for x in t if '@' not in x]
        rets = [x for x in tb if x.startswith('ret:')]
        if 'dispatch' in tb:
            n_disp += 1
            if rets[-1:] != ['ret:True']:
                problems.append(f'a dispatched request ends the session ({rets})')
    if n_disp == 0:
        problems.append('no path dispatches a request')
    # the three non-request outcomes
    arms = [nd for nd, a in crate.walk_fn(f) if nd.get('k') == 'match' and 'Result<std::option::Option<' in str(nd.get('scrut_ty')) and 'ClientMessage' in str(nd.get('scrut_ty'))]
    if len(arms) == 1:
        for arm in arms[0]['arms']:
            vs = [short(x) for x in pat_variants(arm['pat'])]
            lits = [nd['args'][0]['v']['v'] for nd, a in walk(arm['body']) if nd.get('k') == 'call' and short(ctor_name(nd) or '') == 'Ok' and
                    nd['args'] and nd['args'][0].get('k') == 'lit' and isinstance(nd['args'][0]['v'].get('v'), bool)]
            txt = str(arm['pat'])
            if 'None' in txt or vs == ['Err']:
                if lits != [False]:
                    problems.append(f'end of input / undecodable line does not stop the session ({vs}: {lits})')
    else:
        problems.append('decode result match not found')
    if problems:
        rep.violation('C13.h', 'Proto:continuation', f.loc, '; '.join(sorted(set(problems))), key='C13.h/Proto/continuation/' + '|'.join(sorted({p_.split(' (')[0] for p_ in problems})))
    else:
        rep.ok('C13.h', 'Proto:continuation', f.loc, f'{n_disp} dispatching paths end in Ok(true); EOF / decode error end in Ok(false)')
    # the serve loops stop exactly on `false`
    n = 0
    for name in ('server::tcp', 'server::unix'):
        for g in crate.top_fns():
            if not g.path.startswith(name + '::') or short(g.path) != 'process_line':
                continue
            n += 1
            b = Bindings(crate, g)

            def pl_alias(nd_, b=b):
                if isinstance(nd_, dict) and nd_.get('k') == 'path' and any('process_incoming_message' in x for x in b.origins(nd_)):
                    return 'served'
                return None

            def pl_classify(nd_, anc_):
                cn = ctor_name(nd_) if nd_.get('k') == 'call' else None
                if cn and cn.endswith('ControlFlow::Continue'):
                    return 'Continue'
                if cn and cn.endswith('ControlFlow::Break'):
                    return 'Break'
                return None
            pp = Tracer(crate, pl_classify, cond_alias=pl_alias, inline_local=False).run_fn(g)
            good = True
            seen_rows = set()
            for (ex, t, v) in ok_exits(pp):
                tb = [base(x) for x in t]
                if '?served=1' in tb:
                    seen_rows.add(1)
                    good = good and tb[-1:] == ['Continue'] and 'Break' not in tb
                elif '?served=0' in tb:
                    seen_rows.add(0)
                    good = good and tb[-1:] == ['Break'] and 'Continue' not in tb
                else:
                    good = False
            if good and seen_rows == {0, 1}:
                rep.ok('C13.h', f'{name}::process_line', g.loc, 'Break on false, Continue otherwise')
            else:
                rep.violation('C13.h', f'{name}::process_line', g.loc, 'the serve loop does not continue after a served request / stop on false',
                              key=f'C13.h/{name}/process_line')
    rep.floor('C13.h', n, 2, 'socket serve loops')


def rule_i(prog, rep):
    rep.rule('C13.i', 'T3+T4', 'the core answers every request exactly once: in process_api_call (regular mode) and in the follower\'s '
             'process_api_call every arm whose WbFunction variant carries an answer channel (a oneshot::Sender field) sends into '
             'that channel exactly once on every path through the arm; a handler whose answer channel is dropped unanswered '
             'ends the session instead of answering')
    from .c02 import api_match
    crate = prog.crate(WB)
    adt = crate.adt('server::common::WbFunction')
    sender_idx = {}
    for v in adt['variants']:
        idx = [i_ for i_, fl in enumerate(v['fields']) if 'oneshot::Sender' in fl['ty']]
        if idx:
            sender_idx[v['name']] = idx[0]
    n = 0
    for fname in ('process_api_call', 'leader_follower::follower::process_api_call'):
        f = crate.fn(fname)
        m = api_match(crate, f)
        for arm in m['arms']:
            vs = [short(v) for v in pat_variants(arm['pat'])]
            if len(vs) != 1 or vs[0] not in sender_idx:
                continue
            sv = vs[0]
            pat = arm['pat']
            while pat.get('k') in ('pguard',):
                pat = pat['pat']
            args = pat.get('args') or []
            if pat.get('k') != 'pctor' or sender_idx[sv] >= len(args):
                rep.violation('C13.i', f'{short(fname)}:{sv}', f'{f.file}:{arm.get("ln")}', 'unrecognised-shape: variant pattern', key=f'C13.i/{fname}/{sv}/shape')
                continue
            sb = args[sender_idx[sv]]
            if sb.get('k') != 'bind':
                # the answer channel is not even bound (`_`): nobody can answer
                rep.violation('C13.i', f'{short(fname)}:{sv}', f'{f.file}:{arm.get("ln")}', 'the answer channel of the request is not bound: the request is never answered',
                              key=f'C13.i/{fname}/{sv}/unbound')
                continue
            sid = sb['id']

            def classify(nd, anc, sid=sid):
                if nd.get('k') == 'call' and short(callee(nd)) == 'send' and nd['args']:
                    a0 = nd['args'][0]
                    while a0.get('k') in ('ref',):
                        a0 = a0['e']
                    if a0.get('k') == 'path' and a0.get('id') == sid:
                        return 'answer'
                    return None
                if nd.get('k') == 'call' and nd['args'] and any(x.get('k') == 'path' and x.get('id') == sid for x in nd['args']):
                    return 'handoff'     # the channel is passed on (e.g. export_for_persistence(tx)): answered there
                return None
            tr = Tracer(crate, classify, closure_mode=lambda c_, cl: "inline", inline_local=False)
            tr.env = {}
            bp = tr.expr(arm['body'])
            n += 1
            bad = [t for (ex, t, v) in bp if ex in ('fall', 'ret') and len([x for x in t if base(x) in ('answer', 'handoff') and '@' not in x]) != 1]
            if bad:
                cnt = len([x for x in bad[0] if base(x) in ('answer', 'handoff') and '@' not in x])
                rep.violation('C13.i', f'{short(fname)}:{sv}', f'{f.file}:{arm.get("ln")}', f'a path through the arm answers {cnt} times',
                              key=f'C13.i/{fname}/{sv}/answers={cnt}', expected='exactly one send into the answer channel')
            else:
                rep.ok('C13.i', f'{short(fname)}:{sv}', f'{f.file}:{arm.get("ln")}', 'answers exactly once on every path')
    rep.floor('C13.i', n, 40, 'arms with an answer channel (regular + follower)')
    # every received request is handed to the dispatcher of its mode, unconditionally
    sites = (('leader_follower::follower::try_process_api_call', 'leader_follower::follower::process_api_call'),
             ('leader_follower::leader::try_forward_api_call', 'process_api_call'))
    for fn_name, target in sites:
        g = crate.fn(fn_name)
        gb = Bindings(crate, g)
        calls = [(nd, a) for nd, a in crate.walk_fn(g) if nd.get('k') == 'call' and callee(nd) == target and
                 any(x.startswith('param(') and '#Some.0' in x for x in gb.origins(nd['args'][1]))]
        good = False
        for nd, anc in calls:
            ifs = [it for it in guards(anc + (nd,)) if it[0] == 'if']
            if not ifs:
                good = True
        if good:
            rep.ok('C13.i', f'{short(fn_name)}:dispatch', g.loc, f'a received request is passed to {short(target)} unconditionally')
        else:
            rep.violation('C13.i', f'{short(fn_name)}:dispatch', g.loc, f'a received request does not reach {target} on every path: it is never answered',
                          key=f'C13.i/{fn_name}/dispatch')


def rule_j(prog, rep):
    rep.rule('C13.j', 'T2', 'a waiting lock request does not hold up the session: V1::acquire_lock awaits the confirmation receiver only '
             'inside a spawned task - the handler itself returns at once, so the requests pipelined behind a contended acquire are '
             'read and answered while the lock is still held by someone else')
    crate = prog.crate(WB)
    f = crate.fn(f'{V1}::acquire_lock')
    waits = []
    for nd, anc in crate.walk_fn(f):
        if nd.get('k') == 'await' and 'oneshot::Receiver' in str((nd.get('e') or {}).get('ty') or nd.get('operand_ty') or ''):
            waits.append((nd, anc))
    if not waits:
        # fall back on the type of the awaited local
        for nd, anc in crate.walk_fn(f):
            if nd.get('k') == 'match' and 'oneshot::error::RecvError' in str(nd.get('scrut_ty')) and nd['scrut'].get('k') == 'await':
                waits.append((nd['scrut'], anc + (nd,)))
    if not waits:
        raise AnchorMissing('the await of the lock confirmation in V1::acquire_lock')
    bad = []
    for nd, anc in waits:
        in_task = False
        chain = [a for a in anc if isinstance(a, dict)]
        for i_, a in enumerate(chain):
            if a.get('k') == 'closure' and i_ > 0 and chain[i_ - 1].get('k') == 'call' and is_spawn(callee(chain[i_ - 1])):
                in_task = True
        if not in_task:
            bad.append(nd)
    if bad:
        rep.violation('C13.j', 'V1::acquire_lock', loc(f, bad[0]), 'the handler awaits the lock confirmation itself: every request the '
                      'client pipelined behind it waits until the lock is granted or cancelled', key='C13.j/acquire_lock/inline-wait',
                      expected='spawn(async move { rx.await .. })')
    else:
        rep.ok('C13.j', 'V1::acquire_lock', f.loc, f'{len(waits)} wait(s) for the confirmation, all inside spawned tasks')


RULES = [('C13.j', rule_j), ('C13.i', rule_i), ('C13.h', rule_h), ('C13.a', rule_a), ('C13.b', rule_b), ('C13.c', rule_c), ('C13.d', rule_d), ('C13.e', rule_e), ('C13.f', rule_f),
         ('C13.g', rule_g)]
