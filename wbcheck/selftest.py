"""Thorough tier: apply the property's self-test mutants to a scratch copy and require the rules to fire (placeholder)."""


def run(prop, rep):
    rep.mutants = {'applied': 0, 'detected': 0, 'note': 'self-test corpus not wired for this property yet'}
