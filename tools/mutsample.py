#!/usr/bin/env python3
"""Development tool (not a registered check): sample simple syntactic mutants of /repo's sources on a scratch copy and record
which of them the rules report.  The undetected ones are triaged by hand (equivalent / outside the properties / gap in a rule).

usage: tools/mutsample.py <out.jsonl> [--files f1,f2] [--max N] [--seed S]
"""
import importlib
import json
import os
import random
import re
import shutil
import subprocess
import sys
import time

sys.path.insert(0, os.path.dirname(os.path.dirname(os.path.abspath(__file__))))
from wbcheck import facts  # noqa: E402
from wbcheck.ir import Program, AnchorMissing  # noqa: E402
from wbcheck.report import Report  # noqa: E402
from wbcheck.trace import TooComplex  # noqa: E402

W = 'worterbuch/src/'
FILEMAP = {
    W + 'store.rs': ['C01', 'C02', 'C04', 'C05', 'C06', 'C09'],
    W + 'worterbuch.rs': ['C01', 'C02', 'C03', 'C05', 'C06', 'C07', 'C08', 'C16', 'C11', 'C12', 'C17'],
    W + 'subscribers.rs': ['C03', 'C04', 'C05'],
    W + 'server/common/protocol/v0.rs': ['C13', 'C15', 'C03', 'C16', 'C17', 'C08'],
    W + 'server/common/protocol/v1.rs': ['C13', 'C15', 'C06', 'C17'],
    W + 'server/common/protocol/mod.rs': ['C13', 'C15', 'C17'],
    W + 'server/common/mod.rs': ['C07', 'C13', 'C14', 'C17'],
    W + 'server/tcp.rs': ['C07', 'C14', 'C17'],
    W + 'server/unix.rs': ['C07', 'C14', 'C17'],
    W + 'persistence/mod.rs': ['C09', 'C10', 'C12', 'C18'],
    W + 'persistence/json/mod.rs': ['C09', 'C10'],
    W + 'persistence/json/v3.rs': ['C09', 'C10'],
    W + 'persistence/json/v2.rs': ['C09', 'C10'],
    W + 'persistence/redb/mod.rs': ['C18'],
    W + 'leader_follower/follower.rs': ['C11', 'C12'],
    W + 'leader_follower/leader.rs': ['C11', 'C12', 'C14'],
    W + 'leader_follower/mod.rs': ['C11', 'C12'],
    W + 'auth.rs': ['C15'],
    W + 'lib.rs': ['C12', 'C08', 'C07'],
    W + 'config.rs': ['C12'],
    'worterbuch-common/src/lib.rs': ['C14', 'C17', 'C04', 'C08'],
    'worterbuch-common/src/error.rs': ['C13', 'C14'],
    'worterbuch-common/src/client.rs': ['C14', 'C13'],
    'worterbuch-common/src/server.rs': ['C14', 'C13'],
    'worterbuch-client/src/tcp.rs': ['C20', 'C14'],
    'worterbuch-client/src/local.rs': ['C20'],
    'worterbuch-cluster-orchestrator/src/socket.rs': ['C19', 'C14'],
    'worterbuch-cluster-orchestrator/src/process_manager.rs': ['C12'],
    'worterbuch-client/src/lib.rs': ['C20'],
    'worterbuch-client/src/buffer.rs': ['C20'],
    'worterbuch-cluster-orchestrator/src/election.rs': ['C19'],
    'worterbuch-cluster-orchestrator/src/config.rs': ['C19', 'C12'],
    'worterbuch-cluster-orchestrator/src/leader.rs': ['C12', 'C19'],
    'worterbuch-cluster-orchestrator/src/follower.rs': ['C12', 'C19'],
    'worterbuch-cluster-orchestrator/src/lib.rs': ['C19'],
}

OPS = [
    (r' == ', ' != '), (r' != ', ' == '), (r' <= ', ' < '), (r' >= ', ' > '), (r' < ', ' <= '), (r' > ', ' >= '),
    (r' && ', ' || '), (r' \|\| ', ' && '), (r'\bif !', 'if '), (r' \+ 1\b', ' + 0'), (r' - 1\b', ' - 0'),
    (r'\btrue\b', 'false'), (r'\bfalse\b', 'true'), (r'\?;$', '.ok();'),
]
STMT_DELETE = re.compile(r'^\s+[a-zA-Z_][\w\.:]*(\(|\.)[^=]*\)(\.await)?\??;\s*$')


def candidates(root, files):
    out = []
    for f in files:
        p = os.path.join(root, f)
        if not os.path.exists(p):
            continue
        lines = open(p).read().split('\n')
        in_test = False
        for i, ln in enumerate(lines):
            if '#[cfg(test)]' in ln:
                in_test = True
            if in_test:
                continue
            st = ln.strip()
            if not st or st.startswith('//') or st.startswith('#[') or 'debug!' in st or 'trace!' in st or 'info!' in st or \
                    'warn!' in st or 'error!' in st or st.startswith('use ') or 'log::' in st:
                continue
            for pat, rep in OPS:
                for mobj in re.finditer(pat, ln):
                    new = ln[:mobj.start()] + re.sub(pat, rep, ln[mobj.start():mobj.end()]) + ln[mobj.end():]
                    if new != ln:
                        out.append((f, i, ln, new, f'{pat}->{rep}'))
            if STMT_DELETE.match(ln) and not st.startswith(('let ', 'return', 'break', 'continue')):
                out.append((f, i, ln, ln[:len(ln) - len(ln.lstrip())] + '// deleted', 'delete-stmt'))
    return out


def rules_violations(prog, props):
    res = {}
    for prop in props:
        rep = Report(prop, 'thorough')
        mod = importlib.import_module(f'wbcheck.rules.{prop.lower()}')
        for name, fn in mod.RULES:
            try:
                fn(prog, rep)
            except AnchorMissing as e:
                rep.anchor_missing(name, e)
            except TooComplex as e:
                rep.anchor_missing(name, f'unrecognised-shape: {e}')
            except (KeyError, IndexError, TypeError, AttributeError, NameError, ValueError) as e:
                rep.anchor_missing(name, f'unrecognised-shape: {type(e).__name__}: {e}')
        res[prop] = {o['key']: o['rule'] for o in rep.obligations if o['verdict'] == 'violation'}
    return res


def main():
    out = sys.argv[1]
    args = sys.argv[2:]
    files = None
    mx = 50
    seed = 1
    while args:
        a = args.pop(0)
        if a == '--files':
            files = args.pop(0).split(',')
        elif a == '--max':
            mx = int(args.pop(0))
        elif a == '--seed':
            seed = int(args.pop(0))
    files = files or list(FILEMAP)
    base_dir = f'/var/tmp/wbmut.{os.getpid()}'
    src = os.path.join(base_dir, 'src')
    shutil.rmtree(base_dir, ignore_errors=True)
    os.makedirs(src)
    subprocess.check_call(['rsync', '-a', '--exclude', 'target', '--exclude', '.git', facts.REPO + '/', src + '/'])
    try:
        allprops = sorted({p for f in files for p in FILEMAP.get(f, [])})
        base = rules_violations(Program(facts.ensure_facts(src, quiet=True)), allprops)
        cands = candidates(src, files)
        random.Random(seed).shuffle(cands)
        done = set()
        if os.path.exists(out):
            for l in open(out):
                try:
                    j = json.loads(l)
                    done.add((j['file'], j['line_text'], j['mut']))
                except ValueError:
                    pass
        n = 0
        with open(out, 'a') as fo:
            for (f, i, old, new, kind) in cands:
                if n >= mx:
                    break
                if (f, old.strip(), kind) in done:
                    continue
                p = os.path.join(src, f)
                text = open(p).read()
                lines = text.split('\n')
                if lines[i] != old:
                    continue
                lines[i] = new
                open(p, 'w').write('\n'.join(lines))
                t0 = time.time()
                rec = {'file': f, 'line': i + 1, 'line_text': old.strip(), 'new_text': new.strip(), 'mut': kind}
                try:
                    d = facts.ensure_facts(src, quiet=True)
                    got = rules_violations(Program(d), FILEMAP[f])
                    fired = sorted({r for pr in got for k, r in got[pr].items() if k not in base.get(pr, {})})
                    rec['compiles'] = True
                    rec['fired'] = fired
                except facts.ExtractionError:
                    rec['compiles'] = False
                finally:
                    open(p, 'w').write(text)
                rec['wall_s'] = round(time.time() - t0, 1)
                fo.write(json.dumps(rec) + '\n')
                fo.flush()
                n += 1
                print(f"{f}:{i+1} {kind}: {'no-compile' if not rec['compiles'] else (rec['fired'] or 'UNDETECTED')}", flush=True)
    finally:
        shutil.rmtree(base_dir, ignore_errors=True)


if __name__ == '__main__':
    main()
