"""C16 — aggregated pattern subscriptions batch events without losing or reordering them (structural clauses)."""
from ..ir import callee, short, walk, ctor_name, pat_variants, guards, strip_not, conjuncts, AnchorMissing
from ..trace import Tracer, ok_exits, err_exits, base
from ..prov import Bindings
from .common import *

NOT_DECIDED = ('the delay bound itself and all timing interleavings (timer vs. events vs. a slow client connection); that the '
               'order inside one batch equals the arrival order beyond the insertion-ordered buffer type; back-pressure')

AGG = 'worterbuch::PStateAggregatorState'


def rule_a(prog, rep):
    rep.rule('C16.a', 'T2', 'flush before a conflicting insert: in PStateAggregatorState::aggregate every insert into set_buffer / '
             'deleted_buffer is preceded, in the same arm, by the test `!<other buffer>.is_empty() || key_already_buffered(&kvps)` '
             'whose true edge awaits send_current_state()?; the KeyValuePairs arm fills set_buffer, the Deleted arm deleted_buffer; '
             'key_already_buffered consults BOTH buffers')
    crate = prog.crate(WB)
    f = crate.fn(f'{AGG}::aggregate')
    b = Bindings(crate, f)
    ms = [nd for nd, a in crate.walk_fn(f) if nd.get('k') == 'match' and 'PStateEvent' in str(nd.get('scrut_ty'))]
    if len(ms) != 1:
        raise AnchorMissing('match over PStateEvent in aggregate')
    want = {'KeyValuePairs': ('set_buffer', 'deleted_buffer'), 'Deleted': ('deleted_buffer', 'set_buffer')}
    for arm in ms[0]['arms']:
        for v in pat_variants(arm['pat']):
            sv = short(v)
            if sv not in want:
                rep.violation('C16.a', f'aggregate:{sv}', f'{f.file}:{arm.get("ln")}', 'unexpected arm', key=f'C16.a/{sv}/arm')
                continue
            own, other = want[sv]

            def classify(nd, anc):
                k = nd.get('k')
                if k == 'call':
                    c = callee(nd)
                    sh = short(c)
                    if sh in ('insert', 'extend') and nd['args'] and any(x.get('k') == 'field' and x['name'] in ('set_buffer', 'deleted_buffer')
                                                                         for x, _ in walk(nd['args'][0])):
                        fld = [x['name'] for x, _ in walk(nd['args'][0]) if x.get('k') == 'field' and x['name'].endswith('_buffer')][0]
                        return 'buffer:' + fld
                    if c == f'{AGG}::send_current_state':
                        return 'flush'
                    if c == f'{AGG}::key_already_buffered':
                        return 'dup?'
                    if sh == 'is_empty' and nd['args'] and any(x.get('k') == 'field' and x['name'].endswith('_buffer') for x, _ in walk(nd['args'][0])):
                        fld = [x['name'] for x, _ in walk(nd['args'][0]) if x.get('k') == 'field' and x['name'].endswith('_buffer')][0]
                        return 'empty?' + fld
                return None
            tr = Tracer(crate, classify)
            tr.env = {}
            paths = tr.expr(arm['body'])
            problems = []
            ins = {base(x) for (ex, t, v) in paths for x in t if base(x).startswith('buffer:')}
            if ins != {'buffer:' + own}:
                problems.append(f'arm inserts into {sorted(ins)}')
            # the conflict test and its flush
            ifs = [nd for nd, a in walk(arm['body']) if nd.get('k') == 'if']
            cond_ok = False
            for i_ in ifs:
                c = i_['cond']
                if c.get('k') == 'binary' and c.get('op') == 'Or':
                    l, lp = strip_not(c['l'])
                    r, rp = strip_not(c['r'])
                    lt = str(l)[:600]
                    if (not lp) and l.get('k') == 'call' and short(callee(l)) == 'is_empty' and f"'{other}'" in lt and rp and \
                            r.get('k') == 'call' and callee(r) == f'{AGG}::key_already_buffered' and \
                            all('#' + sv in x for x in b.origins(r['args'][1])):
                        fl = [x for x, _ in walk(i_['then']) if x.get('k') == 'call' and callee(x) == f'{AGG}::send_current_state']
                        tried = any(x.get('k') == 'try' for x, _ in walk(i_['then']))
                        if fl and tried and 'else' not in i_:
                            cond_ok = True
            if not cond_ok:
                problems.append(f'no `if !{other}.is_empty() || key_already_buffered(&kvps) {{ send_current_state().await? }}`')
            for (ex, t, v) in paths:
                tb = [base(x) for x in t]
                if 'buffer:' + own in tb:
                    i = tb.index('buffer:' + own)
                    if 'dup?' not in tb[:i] and ('empty?' + other) not in tb[:i]:
                        problems.append('an insert is reachable without the conflict test before it')
                    if 'flush' in tb[i:]:
                        problems.append('flush after the insert of the same event')
            # what is inserted: every pair of the event
            loops = [nd for nd, a in walk(arm['body']) if nd.get('k') == 'for']
            exts = [nd for nd, a in walk(arm['body']) if nd.get('k') == 'call' and short(callee(nd)) == 'extend' and
                    any(x.get('k') == 'field' and x['name'] == own for x, _ in walk(nd['args'][0]))]
            every = bool(loops) and all('#' + sv in x for x in b.origins(loops[0]['iter']))
            if not every and len(exts) == 1:
                # `buffer.extend(kvps.into_iter().map(|kvp| (kvp.key, kvp.value)))`: the whole event, unfiltered
                chain, cur = [], exts[0]['args'][1]
                while isinstance(cur, dict) and cur.get('k') == 'call' and cur['args']:
                    chain.append(short(callee(cur)))
                    cur = cur['args'][0]
                every = set(chain) <= {'into_iter', 'iter', 'map', 'cloned'} and all('#' + sv in x for x in b.origins(exts[0]['args'][1]))
            if not every:
                problems.append('not every pair of the event is buffered')
            if problems:
                rep.violation('C16.a', f'aggregate:{sv}', f'{f.file}:{arm.get("ln")}', '; '.join(sorted(set(problems))),
                              key=f'C16.a/{sv}/' + '|'.join(sorted(set(problems))))
            else:
                rep.ok('C16.a', f'aggregate:{sv}', f'{f.file}:{arm.get("ln")}', f'conflict test (other buffer non-empty or key buffered) -> flush; then all pairs into {own}')
    k = crate.fn(f'{AGG}::key_already_buffered')
    # exact: evaluate the body as a boolean function of "pair i is in set_buffer / deleted_buffer" over all 2-pair inputs and
    # compare with `exists i: in_set(i) or in_deleted(i)` (any syntactic form with the same truth table is accepted)
    kb = Bindings(crate, k)

    class _Unrec(Exception):
        pass

    def ev(e, pairs, cur):
        kk = e.get('k')
        if kk == 'block' and not e.get('stmts') and 'tail' in e:
            return ev(e['tail'], pairs, cur)
        if kk == 'binary' and e.get('op') in ('Or', 'And'):
            l, r = ev(e['l'], pairs, cur), ev(e['r'], pairs, cur)
            return (l or r) if e['op'] == 'Or' else (l and r)
        if kk == 'unary' and e.get('op') == 'Not':
            return not ev(e['e'], pairs, cur)
        if kk == 'call':
            sh = short(callee(e))
            if sh in ('any', 'all') and len(e['args']) == 2 and e['args'][1].get('k') == 'closure' and \
                    kb.origins(e['args'][0]) == {'param(kvps)'}:
                cl = crate.closure(e['args'][1]['def'])
                vals = [ev(cl.hir, pairs, p) for p in pairs]
                return any(vals) if sh == 'any' else all(vals)
            if sh == 'contains_key' and len(e['args']) == 2 and cur is not None:
                fl = {x['name'] for x, _ in walk(e['args'][0]) if x.get('k') == 'field' and x['name'].endswith('_buffer')}
                keyf = [x for x, _ in walk(e['args'][1]) if x.get('k') == 'field' and x['name'] == 'key']
                if len(fl) == 1 and keyf:
                    return cur[0] if fl == {'set_buffer'} else cur[1] if fl == {'deleted_buffer'} else _raise()
        raise _Unrec(kk)

    def _raise():
        raise _Unrec('buffer')
    import itertools
    good, why = True, ''
    try:
        for n_ in (0, 1, 2):
            for pairs in itertools.product([(a_, b_) for a_ in (False, True) for b_ in (False, True)], repeat=n_):
                got = ev(k.hir, list(pairs), None)
                want_ = any(a_ or b_ for a_, b_ in pairs)
                if bool(got) != want_:
                    good, why = False, f'for pairs (in set_buffer, in deleted_buffer) = {list(pairs)} it answers {got}'
                    break
            if not good:
                break
    except _Unrec as e_:
        good, why = False, f'unrecognised-shape ({e_})'
    if good:
        rep.ok('C16.a', 'key_already_buffered', k.loc, 'true iff some pair of the event has its key in set_buffer or in deleted_buffer '
               '(truth table over all inputs of up to 2 pairs)')
    else:
        rep.violation('C16.a', 'key_already_buffered', k.loc, f'is not "some key of the event is already buffered in either buffer": {why}',
                      key='C16.a/key_already_buffered')


def rule_b(prog, rep):
    rep.rule('C16.b', 'T1+T8', 'a flush empties the buffers in insertion order: both buffers are insertion-ordered maps '
             '(hashlink LinkedHashMap); send_set_event / send_deleted_event drain() their own buffer into the same-kind event '
             'and send it; send_current_state sends both non-empty buffers; the batch goes to the client with the subscription\'s '
             'transaction id and pattern')
    crate = prog.crate(WB)
    a = crate.adt(AGG)
    ft = {x['name']: x['ty'] for x in a['variants'][0]['fields']}
    for fld in ('set_buffer', 'deleted_buffer'):
        if 'LinkedHashMap' in ft.get(fld, '') or 'IndexMap' in ft.get(fld, ''):
            rep.ok('C16.b', f'{fld}:type', f"{a['file']}:{a['line']}", 'insertion-ordered map')
        else:
            rep.violation('C16.b', f'{fld}:type', f"{a['file']}:{a['line']}", f'buffer type {ft.get(fld)} does not keep the arrival order',
                          key=f'C16.b/{fld}/type', expected='LinkedHashMap')
    for name, fld, ctor in (('send_set_event', 'set_buffer', 'KeyValuePairs'), ('send_deleted_event', 'deleted_buffer', 'Deleted')):
        f = crate.fn(f'{AGG}::{name}')
        b = Bindings(crate, f)
        dr = [nd for nd, an in crate.walk_fn(f) if nd.get('k') == 'call' and short(callee(nd)) == 'drain']
        ct = [nd for nd, an in crate.walk_fn(f) if ctor_name(nd) and 'PStateEvent::' in ctor_name(nd)]
        sd = crate.calls(f, lambda c: c == f'{AGG}::send_aggregated_pstate')
        good = len(dr) == 1 and f"'{fld}'" in str(dr[0]['args'][0])[:400] and len(ct) == 1 and short(ctor_name(ct[0])) == ctor and \
            any('drain' in x for x in b.origins(ct[0]['args'][0])) and len(sd) == 1 and \
            any('PStateEvent' in x or 'drain' in x for x in b.origins(sd[0][0]['args'][1]))
        if good:
            rep.ok('C16.b', name, f.loc, f'{fld}.drain() -> PStateEvent::{ctor} -> send')
        else:
            rep.violation('C16.b', name, f.loc, f'does not drain {fld} into one PStateEvent::{ctor} and send it', key=f'C16.b/{name}')
    s = crate.fn(f'{AGG}::send_current_state')

    def classify(nd, anc):
        if nd.get('k') == 'call':
            c = callee(nd)
            if c == f'{AGG}::send_set_event':
                return 'set'
            if c == f'{AGG}::send_deleted_event':
                return 'del'
        return None
    paths = Tracer(crate, classify).run_fn(s)
    oks = {tuple(base(x) for x in t if '@' not in x) for (ex, t, v) in ok_exits(paths)}
    # each send sits exactly on the "its own buffer is not empty" edge (an empty buffer is skipped, a filled one is never skipped)
    sb_ = Bindings(crate, s)
    cond_ok = True
    for callee_, fld in ((f'{AGG}::send_set_event', 'set_buffer'), (f'{AGG}::send_deleted_event', 'deleted_buffer')):
        for nd, anc in crate.walk_fn(s):
            if nd.get('k') == 'call' and callee(nd) == callee_:
                g = [it for it in guards(anc + (nd,)) if it[0] == 'if']
                good_g = False
                if len(g) == 1:
                    c, pol = strip_not(g[0][1])
                    if c.get('k') == 'call' and short(callee(c)) == 'is_empty' and sb_.origins(c['args'][0]) == {f'param(self).{fld}'}:
                        # executes when is_empty() == (branch == pol) ... we need "not empty"
                        good_g = (g[0][2] == pol) is False
                cond_ok = cond_ok and good_g
    if oks == {(), ('set',), ('del',), ('set', 'del')} and cond_ok:
        rep.ok('C16.b', 'send_current_state', s.loc, 'sends the set batch iff set_buffer is non-empty, then the deleted batch iff deleted_buffer is non-empty')
    elif not cond_ok:
        rep.violation('C16.b', 'send_current_state', s.loc, 'a batch is not sent exactly when its own buffer is non-empty', key='C16.b/send_current_state/condition')
    else:
        rep.violation('C16.b', 'send_current_state', s.loc, f'flush sequences {sorted(oks)}', key='C16.b/send_current_state')
    p = crate.fn(f'{AGG}::send_aggregated_pstate')
    pb = Bindings(crate, p)
    st = [nd for nd, an in crate.walk_fn(p) if nd.get('k') == 'struct' and (nd.get('path') or '').endswith('PState')]
    good = False
    if len(st) == 1:
        fo = {x['name']: pb.origins(x['e']) for x in st[0]['fields']}
        good = fo.get('transaction_id') == {'param(self).transaction_id'} and fo.get('request_pattern') == {'param(self).request_pattern'} \
            and fo.get('event') == {'param(event)'}
    snd = [nd for nd, an in crate.walk_fn(p) if server_message_sent(nd, pb)]
    if good and len(snd) == 1 and server_message_sent(snd[0], pb)[0] == 'PState' and 'client_sub' in str(snd[0]['args'][0])[:300]:
        rep.ok('C16.b', 'send_aggregated_pstate', p.loc, 'PState{subscription id, pattern, batch} -> client_sub')
    else:
        rep.violation('C16.b', 'send_aggregated_pstate', p.loc, 'the batch is not sent as PState of this subscription', key='C16.b/send_aggregated_pstate')


def rule_c(prog, rep):
    rep.rule('C16.c', 'T1+T2', 'timer flag typestate: send_is_scheduled is set (true) only in schedule_send and cleared (false) only in '
             'send_current_state (initially false); aggregate calls schedule_send on the !send_is_scheduled edge, before '
             'buffering, with self.aggregate_duration; schedule_send spawns sleep(aggregate_duration) followed by the trigger '
             'send; the loop answers a trigger with send_current_state')
    crate = prog.crate(WB)
    n = 0
    for f in crate.top_fns():
        for nd, anc in crate.walk_fn(f):
            w = nd.get('k') == 'assign' and nd['l'].get('k') == 'field' and nd['l']['name'] == 'send_is_scheduled'
            init = nd.get('k') == 'struct' and (nd.get('path') or '').endswith('PStateAggregatorState')
            if not (w or init):
                continue
            n += 1
            if init:
                v = [x['e'] for x in nd['fields'] if x['name'] == 'send_is_scheduled']
                if v and v[0].get('k') == 'lit' and v[0]['v'].get('v') is False:
                    rep.ok('C16.c', f'{short(f.path)}:init', loc(f, nd), 'send_is_scheduled: false')
                else:
                    rep.violation('C16.c', f'{f.path}:init', loc(f, nd), 'aggregator starts with the flag set', key=f'C16.c/{f.path}/init')
                continue
            val = nd['r']['v'].get('v') if nd['r'].get('k') == 'lit' else None
            name = short(f.path)
            if (name, val) in (('schedule_send', True), ('send_current_state', False)) and f.path.startswith(AGG):
                rep.ok('C16.c', f'{name}:flag={val}', loc(f, nd), 'expected writer')
            else:
                rep.violation('C16.c', f'{f.path}:flag={val}', loc(f, nd), f'send_is_scheduled = {val} written in {name}',
                              key=f'C16.c/{f.path}/flag={val}', expected='true only in schedule_send, false only in send_current_state')
    rep.floor('C16.c', n, 3, 'flag write sites')
    f = crate.fn(f'{AGG}::aggregate')
    b = Bindings(crate, f)

    def classify(nd, anc):
        if nd.get('k') == 'call':
            c = callee(nd)
            if c == f'{AGG}::schedule_send':
                return 'schedule'
            if short(c) == 'insert' and any(x.get('k') == 'field' and x['name'].endswith('_buffer') for x, _ in walk(nd['args'][0])):
                return 'buffer'
        return None
    paths = Tracer(crate, classify, cond_events=('send_is_scheduled',)).run_fn(f)
    problems = []
    for (ex, t, v) in paths:
        tb = [base(x) for x in t]
        if '?send_is_scheduled=0' in tb and 'schedule' not in tb:
            problems.append('an event can be buffered with no timer pending')
        if '?send_is_scheduled=1' in tb and 'schedule' in tb:
            problems.append('a second timer is scheduled while one is pending')
        if 'schedule' in tb and 'buffer' in tb and tb.index('schedule') > tb.index('buffer'):
            problems.append('the timer is scheduled after buffering')
    if not any('?send_is_scheduled=0' in t for (ex, t, v) in paths):
        problems.append('the flag is not tested')
    sc = crate.calls(f, lambda c: c == f'{AGG}::schedule_send')
    passes_dur = len(sc) == 1 and any(b.origins(a_) == {'param(self).aggregate_duration'} for a_ in sc[0][0]['args'][1:])
    s_fn = crate.fn(f'{AGG}::schedule_send')
    s_b = Bindings(crate, s_fn)
    sl_ = [nd for nd, an in crate.walk_fn(s_fn) if nd.get('k') == 'call' and short(callee(nd)) == 'sleep']
    reads_own = bool(sl_) and s_b.origins(sl_[0]['args'][0]) == {'param(self).aggregate_duration'}
    if len(sc) != 1 or not (passes_dur or reads_own):
        problems.append('schedule_send is not called with self.aggregate_duration')
    if problems:
        rep.violation('C16.c', 'aggregate:schedule', f.loc, '; '.join(sorted(set(problems))), key='C16.c/aggregate/' + '|'.join(sorted(set(problems))))
    else:
        rep.ok('C16.c', 'aggregate:schedule', f.loc, 'if !send_is_scheduled { schedule_send(.., aggregate_duration) } before buffering')
    s = crate.fn(f'{AGG}::schedule_send')
    sb = Bindings(crate, s)

    def cl2(nd, anc):
        if nd.get('k') == 'call':
            c = callee(nd)
            if short(c) == 'sleep':
                return 'sleep'
            if is_mpsc_send(c):
                return 'trigger'
        return None

    def mode(call, clo):
        return ('task', 'task') if is_spawn(callee(call)) else Tracer.default_closure_mode(call, clo)
    paths = Tracer(crate, cl2, closure_mode=mode).run_fn(s)
    seqs = {tuple(base(x) for x in t if '@' not in x) for (ex, t, v) in paths}
    sl = [nd for nd, an in crate.walk_fn(s) if nd.get('k') == 'call' and short(callee(nd)) == 'sleep']
    if seqs == {('task:sleep', 'task:trigger')} and sl and sb.origins(sl[0]['args'][0]) in ({'param(aggregate_duration)'}, {'param(self).aggregate_duration'}):
        rep.ok('C16.c', 'schedule_send', s.loc, 'spawn { sleep(aggregate_duration); send_trigger.send(()) }')
    else:
        rep.violation('C16.c', 'schedule_send', s.loc, f'timer task does {sorted(seqs)}', key='C16.c/schedule_send')
    lp = crate.fn(f'{AGG}::aggregate_loop')

    def cl3(nd, anc):
        if nd.get('k') == 'call':
            c = callee(nd)
            if c == f'{AGG}::send_current_state':
                return 'flush'
            if c == f'{AGG}::aggregate':
                return 'aggregate'
        return None
    loops = [nd for nd, an in crate.walk_fn(lp) if nd.get('k') == 'loop']
    if not loops:
        raise AnchorMissing('loop in aggregate_loop')
    lb0 = Bindings(crate, lp)

    def alias(nd):
        # the select! branch that receives from the trigger channel created in this function (not the event receiver parameter)
        o = lb0.origins(nd)
        if o and all(x.startswith('select(recv:call(') and 'channel' in x for x in o):
            return 'tick'
        return None
    tr3 = Tracer(crate, cl3, cond_alias=alias)
    tr3.env = {}
    # the select! binding of the trigger branch is also a match / if-let scrutinee in other spellings (`match tick { Some(()) => .. }`):
    # seed it so that those produce the edge events tick@Some / tick@None
    from ..ir import pat_binds_ids
    for nd_, anc_ in crate.walk_fn(lp):
        if nd_.get('k') == 'match':
            for arm_ in nd_['arms']:
                for bid, bname in pat_binds_ids(arm_['pat']):
                    probe = {'k': 'path', 'res': 'local', 'id': bid, 'name': bname}
                    if alias(probe) == 'tick':
                        tr3.env[bid] = ('from', 'tick')
    bp = tr3.expr(loops[0]['body'])

    def got_trigger(t):
        return '?tick=1' in t or 'tick@Some' in t
    skipped = [t for (ex, t, v) in bp if got_trigger(t) and 'flush' not in t]
    fired = [t for (ex, t, v) in bp if got_trigger(t) and 'flush' in t]
    if skipped or not fired:
        rep.violation('C16.c', 'aggregate_loop:trigger', lp.loc, f'a timer trigger can be consumed without flushing the buffers: '
                      f'{[list(x) for x in skipped[:1]]} - an event buffered after an early (conflict) flush would wait for the next event',
                      key='C16.c/aggregate_loop/trigger-without-flush', expected='every received trigger calls send_current_state()')
    else:
        rep.ok('C16.c', 'aggregate_loop:trigger', lp.loc, f'{len(fired)} trigger paths, each flushes unconditionally')
    cs = {callee(nd) for nd, an in crate.calls(lp)}
    lb = Bindings(crate, lp)
    ag = crate.calls(lp, lambda c: c == f'{AGG}::aggregate')
    if f'{AGG}::aggregate' in cs and f'{AGG}::send_current_state' in cs and ag and \
            any('channel' in x and x.endswith('[0]') for x in lb.origins(ag[0][0]['args'][2])):
        rep.ok('C16.c', 'aggregate_loop', lp.loc, 'event -> aggregate(event, &trigger sender); trigger -> send_current_state')
    else:
        rep.violation('C16.c', 'aggregate_loop', lp.loc, 'the loop does not connect events and triggers to aggregate / send_current_state',
                      key='C16.c/aggregate_loop')


def rule_d(prog, rep):
    rep.rule('C16.d', 'T2', 'snapshot unbatched: v0::aggregate_loop forwards the first received event directly to the client iff '
             '!live_only (the snapshot), and hands every later event to the aggregator; psubscribe chooses aggregate_loop iff '
             'an aggregation interval was requested and passes that interval on')
    crate = prog.crate(WB)
    f = crate.fn('server::common::protocol::v0::aggregate_loop')
    b = Bindings(crate, f)
    snd = [(nd, anc) for nd, anc in crate.walk_fn(f) if nd.get('k') == 'call' and server_message_sent(nd, b)]
    good = False
    if len(snd) == 1:
        g = [it for it in guards(snd[0][1] + (snd[0][0],)) if it[0] == 'if']
        good = any(it[2] is True and strip_not(it[1])[0].get('k') == 'field' and strip_not(it[1])[0]['name'] == 'live_only' and
                   strip_not(it[1])[1] is False for it in g) and not any(it[0] == 'loop' for it in guards(snd[0][1] + (snd[0][0],)))
    ag = [(nd, anc) for nd, anc in crate.walk_fn(f) if nd.get('k') == 'call' and callee(nd) == 'worterbuch::PStateAggregator::aggregate']
    inloop = bool(ag) and any(it[0] == 'loop' for it in guards(ag[0][1] + (ag[0][0],)))
    nw = crate.calls(f, lambda c: c == 'worterbuch::PStateAggregator::new')
    dur = bool(nw) and b.origins(nw[0][0]['args'][2]) == {'param(subscription).aggregate_duration'}
    if good and inloop and dur:
        rep.ok('C16.d', 'v0::aggregate_loop', f.loc, 'first event forwarded directly under !live_only; all later events aggregated with the requested interval')
    else:
        rep.violation('C16.d', 'v0::aggregate_loop', f.loc, f'snapshot-direct-under-!live_only={good}, later-events-aggregated={inloop}, '
                      f'interval-passed-on={dur}', key='C16.d/aggregate_loop')
    ps = crate.fn(f'{V0}::psubscribe')
    pb = Bindings(crate, ps)
    al = [(nd, anc) for nd, anc in crate.walk_fn(ps) if nd.get('k') == 'call' and callee(nd).endswith('v0::aggregate_loop')]
    fl = [(nd, anc) for nd, anc in crate.walk_fn(ps) if nd.get('k') == 'call' and callee(nd).endswith('v0::forward_loop')]
    ok_sel = False
    if len(al) == 1 and len(fl) == 1:
        ga = [it for it in guards(al[0][1] + (al[0][0],)) if it[0] == 'if']
        gf = [it for it in guards(fl[0][1] + (fl[0][0],)) if it[0] == 'if']
        ok_sel = any(it[2] is True and 'aggregate_events' in str(it[1])[:800] for it in ga) and \
            any(it[2] is False and 'aggregate_events' in str(it[1])[:800] for it in gf)
    si = [nd for nd, an in crate.walk_fn(ps) if nd.get('k') == 'struct' and (nd.get('path') or '').endswith('SubscriptionInfo')]
    dur_ok = bool(si) and any(x['name'] == 'aggregate_duration' and all('aggregate_events' in o for o in pb.origins(x['e'])) for x in si[0]['fields'])
    lo_ok = bool(si) and any(x['name'] == 'live_only' and any('param(msg).live_only' in o for o in pb.origins(x['e'])) for x in si[0]['fields'])
    if ok_sel and dur_ok and lo_ok:
        rep.ok('C16.d', 'psubscribe:selection', ps.loc, 'aggregate_events = Some(ms) -> aggregate_loop with Duration::from_millis(ms); None -> forward_loop')
    else:
        rep.violation('C16.d', 'psubscribe:selection', ps.loc, f'selection-by-aggregate_events={ok_sel}, interval={dur_ok}, live_only={lo_ok}',
                      key='C16.d/psubscribe')


def rule_e(prog, rep):
    rep.rule('C16.e', 'T1', 'a scheduled flush is never cancelled or postponed: the aggregator arms a timer (spawned sleep + trigger) and '
             'forgets it - it keeps no JoinHandle / AbortHandle and calls no abort / reset on a timer; an event buffered after an '
             'early (conflict) flush relies on the timer that is already running, cancelling that timer when the next one is '
             'armed lets the event wait for almost two intervals')
    crate = prog.crate(WB)
    a = crate.adt(AGG)
    bad_fields = [x['name'] for x in a['variants'][0]['fields'] if any(t in x['ty'] for t in ('JoinHandle', 'AbortHandle', 'Sleep', 'Interval', 'JoinSet'))]
    bad_calls = []
    n = 0
    for f in crate.top_fns():
        if not f.path.startswith(AGG + '::'):
            continue
        n += 1
        for b_ in [f] + crate.closures_of(f):
            for nd, anc in walk(b_.hir):
                if nd.get('k') == 'call' and short(callee(nd)) in ('abort', 'abort_all', 'reset', 'reset_immediately', 'reset_after', 'reset_at') and \
                        any(t in callee(nd) for t in ('JoinHandle', 'AbortHandle', 'Sleep', 'Interval', 'JoinSet', 'tokio::time', 'tokio::task')):
                    bad_calls.append((f, nd))
    if bad_fields or bad_calls:
        where = loc(bad_calls[0][0], bad_calls[0][1]) if bad_calls else f"{a['file']}:{a['line']}"
        rep.violation('C16.e', 'aggregator-timers', where, f'the aggregator can cancel / postpone an armed flush (fields {bad_fields}, '
                      f'calls {[short(callee(nd)) for _, nd in bad_calls]})', key='C16.e/timer-cancel')
    else:
        rep.ok('C16.e', 'aggregator-timers', f"{a['file']}:{a['line']}", f'{n} aggregator functions: timers are armed and never cancelled')
    rep.floor('C16.e', n, 8, 'functions of the aggregator state')


RULES = [('C16.e', rule_e), ('C16.a', rule_a), ('C16.b', rule_b), ('C16.c', rule_c), ('C16.d', rule_d)]
