"""Provenance (rule template T7): where does the value in an argument / field position come from?

Def-use over the structured HIR of one function (closures included, they share the HIR owner so binding ids are unique).
`origins(e)` returns a set of origin strings:
   param(name)[.field…]      a parameter of the function (or of a closure inside it), possibly projected
   lit(v)                    a literal
   const(path)               a constant / static / unit constructor
   call(callee)              the result of a call that is not a known value-preserving adaptor
   struct(path)              a struct literal
   self-evident projections are appended:  `.field`, `#Variant.i` (pattern destructuring), `[i]` (tuple index)
"""
from .ir import callee, walk, short

# adaptors through which a value passes unchanged (as far as identity of the datum is concerned)
PASS_THROUGH = ('clone', 'to_owned', 'to_string', 'into', 'as_ref', 'as_str', 'deref', 'borrow', 'as_deref', 'to_vec',
                'from', 'as_mut', 'as_slice', 'into_iter', 'iter', 'cloned', 'copied', 'unwrap_or_default', 'keys',
                'values', 'filter', 'map', 'collect', 'iter_mut', 'flatten', 'rev', 'take', 'as_bytes', 'as_path', 'to_path_buf',
                'ok', 'ok_or', 'ok_or_else', 'map_err', 'as_deref_mut')
WRAPPERS = ('Some', 'Ok', 'Box::new', 'Arc::new')


_REF = None


def ref_params():
    """parameter names of every function on the reference tree (the tree the rules were written against): a later rename
    of a parameter is mapped back by position, so that `param(msg)` in a rule keeps meaning "the 2nd parameter" """
    global _REF
    if _REF is None:
        import json
        import os
        try:
            _REF = json.load(open(os.path.join(os.path.dirname(os.path.abspath(__file__)), 'ref_params.json')))
        except OSError:
            _REF = {}
    return _REF


class Bindings:
    def __init__(self, crate, f):
        self.crate = crate
        self.f = f
        self.by_id = {}
        ref = ref_params().get(f'{crate.name}::{f.path}')
        cur = [x.get('name') if isinstance(x, dict) and x.get('k') == 'bind' else None for x in f.params]
        self.rename = {}
        if ref and len(ref) == len(cur):
            self.rename = {c: r for c, r in zip(cur, ref) if c and r and c != r}
        bodies = [f] + crate.closures_of(f)
        # helpers that did not exist on the reference tree are part of their caller: their parameters are bound to the arguments
        from .ir import ref_fns
        known = ref_fns().get(crate.name)
        helper_bodies = []
        if known is not None:
            todo, seen_h = list(bodies), set()
            while todo:
                b0 = todo.pop()
                for n, anc in walk(b0.hir):
                    if n.get('k') == 'call':
                        cp = callee(n)
                        g = getattr(crate, 'fns', {}).get(cp)
                        if g is not None and g.kind != 'Closure' and cp not in known and cp not in seen_h and cp != f.path and len(seen_h) < 8:
                            seen_h.add(cp)
                            for p_, a_ in zip(g.params, n['args']):
                                self._bind(p_, ('let', a_), ())
                            hb = [g] + crate.closures_of(g)
                            helper_bodies += hb
                            todo += hb
        for b in bodies + helper_bodies:
            for i, p in enumerate(b.params):
                if b in helper_bodies and not b.kind == 'Closure':
                    continue     # bound to the call-site arguments above
                if b is f and isinstance(p, dict) and p.get('k') == 'bind' and p.get('name') in self.rename:
                    p = dict(p, name=self.rename[p['name']])
                self._bind(p, ('param', b.path, i), ())
            for n, anc in walk(b.hir):
                k = n.get('k')
                if k == 'let':
                    self._bind(n['pat'], ('let', n.get('init')), ())
                elif k == 'letcond':
                    self._bind(n['pat'], ('let', n.get('init')), ())
                elif k == 'match':
                    for a in n['arms']:
                        self._bind(a['pat'], ('let', n['scrut']), ())
                elif k == 'for':
                    if n.get('pat'):
                        self._bind(n['pat'], ('iter', n.get('iter')), ())

    def _bind(self, p, src, proj):
        if not isinstance(p, dict):
            return
        k = p.get('k')
        if k == 'bind':
            self.by_id[p['id']] = (p['name'], src, proj)
            if 'sub' in p:
                self._bind(p['sub'], src, proj)
        elif k == 'pctor':
            v = short(p.get('ctor_of') or p.get('path') or '?')
            for i, a in enumerate(p['args']):
                self._bind(a, src, proj + (f'#{v}.{i}',))
        elif k == 'ptuple':
            for i, a in enumerate(p['args']):
                self._bind(a, src, proj + (f'[{i}]',))
        elif k == 'pstruct':
            for fl in p['fields']:
                self._bind(fl['pat'], src, proj + ('.' + fl['name'],))
        elif k == 'por':
            for a in p['alts']:
                self._bind(a, src, proj)
        elif k == 'pguard':
            self._bind(p['pat'], src, proj)
        elif k == 'pslice':
            for a in p['before'] + p['after']:
                self._bind(a, src, proj + ('[..]',))

    # ------------------------------------------------------------------
    def deref_local(self, e, depth=0):
        """follow `path local` -> the init expression of its plain `let x = init` (no destructuring)"""
        while isinstance(e, dict) and depth < 20:
            depth += 1
            k = e.get('k')
            if k == 'path' and e.get('res') == 'local':
                b = self.by_id.get(e.get('id'))
                if b and b[1][0] == 'let' and not b[2] and b[1][1] is not None:
                    e = b[1][1]
                    continue
            if k in ('ref', 'cast') or (k == 'unary' and e.get('op') == 'Deref'):
                e = e['e']
                continue
            if k == 'block' and not e['stmts'] and 'tail' in e:
                e = e['tail']
                continue
            break
        return e

    def origins(self, e, depth=0):
        if not isinstance(e, dict) or depth > 25:
            return {'?'}
        k = e.get('k')
        if k == 'lit':
            return {f"lit({e['v'].get('v')})"}
        if k == 'path':
            if e.get('res') == 'local':
                b = self.by_id.get(e.get('id'))
                if b is None:
                    return {f"local({e.get('name')})"}
                name, src, proj = b
                suffix = ''.join(proj)
                if src[0] == 'param':
                    return {f'param({name})'} if not proj else {f'param[{src[2]}]{suffix}'}
                if src[0] in ('let', 'iter'):
                    if src[1] is None:
                        return {f'uninit({name})'}
                    if src[0] == 'let':
                        return self.project(src[1], list(proj), depth + 1)
                    base = self.origins(src[1], depth + 1)
                    return {o + '[*]' + suffix for o in base}
            return {f"const({e.get('ctor_of') or e.get('path')})"}
        if k == 'field':
            return {o + '.' + e['name'] for o in self.origins(e['e'], depth + 1)}
        if k in ('ref', 'cast', 'await', 'try', 'yield'):
            return self.origins(e['e'], depth + 1)
        if k == 'unary':
            if e.get('op') == 'Deref':
                return self.origins(e['e'], depth + 1)
            return {f"op({e.get('op')})"}
        if k == 'block':
            if 'tail' in e:
                return self.origins(e['tail'], depth + 1)
            return {'unit'}
        if k == 'call':
            name = callee(e)
            sh = short(name)
            if e['args'] and (sh in PASS_THROUGH or any(name.endswith(w) for w in WRAPPERS)):
                return self.origins(e['args'][0], depth + 1)
            if e['args'] and sh in ('unwrap_or', 'unwrap_or_else', 'unwrap_or_default', 'unwrap', 'expect'):
                o = self.origins(e['args'][0], depth + 1)
                if sh == 'unwrap_or' and len(e['args']) > 1:
                    o = o | {x + '(default)' for x in self.origins(e['args'][1], depth + 1)}
                return o
            # the result of a function that did not exist on the reference tree is what its body evaluates to (its parameters are
            # bound to the arguments of this call)
            from .ir import ref_fns
            known = ref_fns().get(self.crate.name)
            g = getattr(self.crate, 'fns', {}).get(name)
            if known is not None and g is not None and name not in known and g.kind != 'Closure' and depth < 20 and \
                    all(isinstance(p_, dict) and p_.get('id') in self.by_id for p_ in g.params if isinstance(p_, dict) and p_.get('k') == 'bind'):
                body = self.crate.user_body(g).hir
                # call-site sensitive: the parameters stand for the arguments of *this* call while its body is evaluated
                saved = {}
                for p_, a_ in zip(g.params, e['args']):
                    if isinstance(p_, dict) and p_.get('k') == 'bind':
                        saved[p_['id']] = self.by_id.get(p_['id'])
                        self.by_id[p_['id']] = (p_['name'], ('let', a_), ())
                try:
                    return self.origins(body, depth + 1)
                finally:
                    for k_, v_ in saved.items():
                        if v_ is None:
                            self.by_id.pop(k_, None)
                        else:
                            self.by_id[k_] = v_
            return {f'call({name})' + (f'@{e.get("ln")}' if getattr(self, 'sites', False) else '')}
        if k == 'struct':
            return {f"struct({e.get('path')})"}
        if k == 'if':
            out = self.origins(e['then'], depth + 1)
            if 'else' in e:
                out |= self.origins(e['else'], depth + 1)
            return out
        if k == 'match':
            out = set()
            for a in e['arms']:
                out |= self.origins(a['body'], depth + 1)
            return out
        if k == 'index':
            return {o + '[i]' for o in self.origins(e['e'], depth + 1)}
        if k == 'binary':
            return {f"op({e.get('op')})"}
        if k == 'tuple':
            return {'tuple'}
        if k in ('return', 'break', 'continue'):
            return set()
        return {f'?{k}'}

    def project(self, e, proj, depth=0):
        """origins of `e` projected by a pattern path (pushes the projection into tuple / struct / ctor literals,
        match and if arms, blocks and plain locals)"""
        if not proj or not isinstance(e, dict) or depth > 25:
            return {o + ''.join(proj) for o in self.origins(e, depth + 1)} if isinstance(e, dict) else {'?'}
        k = e.get('k')
        p0 = proj[0]
        if k in ('ref', 'await', 'try', 'cast') or (k == 'unary' and e.get('op') == 'Deref'):
            # `?` and `.await` unwrap: a projection through Ok/Some is consumed by `?`
            return self.project(e['e'], proj, depth + 1)
        if k == 'block' and p0.startswith('#_'):
            # tokio::select!: `let output = { let futures_init = (fut0, fut1, ..); poll_fn(..).await }; match output { _N(x) => .. }`
            fi = [s for s in e['stmts'] if s.get('k') == 'let' and s['pat'].get('name') == 'futures_init' and
                  any('select' in m for m in (s.get('x') or [])) and (s.get('init') or {}).get('k') == 'tuple']
            idx = p0[2:].split('.')[0]
            if fi and idx.isdigit() and int(idx) < len(fi[0]['init']['elems']):
                fut = fi[0]['init']['elems'][int(idx)]
                if fut.get('k') == 'call' and fut['args']:
                    src = {f'{short(callee(fut))}:{o}' for o in self.origins(fut['args'][0], depth + 1)}
                else:
                    src = self.origins(fut, depth + 1)
                return {f'select({o})' + ''.join(proj[1:]) for o in src}
        if k == 'block' and 'tail' in e:
            return self.project(e['tail'], proj, depth + 1)
        if k == 'tuple' and p0.startswith('[') and p0[1:-1].isdigit() and int(p0[1:-1]) < len(e['elems']):
            return self.project(e['elems'][int(p0[1:-1])], proj[1:], depth + 1)
        if k == 'struct' and p0.startswith('.'):
            for fl in e['fields']:
                if fl['name'] == p0[1:]:
                    return self.project(fl['e'], proj[1:], depth + 1)
        if k == 'call' and e.get('res', '').startswith('Ctor') and p0.startswith('#'):
            v = short(e.get('ctor_of') or e.get('path') or '')
            pv, _, idx = p0[1:].partition('.')
            if pv == v:
                i = int(idx) if idx.isdigit() else 0
                if i < len(e['args']):
                    return self.project(e['args'][i], proj[1:], depth + 1)
        if k == 'if':
            out = self.project(e['then'], proj, depth + 1)
            if 'else' in e:
                out |= self.project(e['else'], proj, depth + 1)
            return out
        if k == 'match':
            out = set()
            for a in e['arms']:
                out |= self.project(a['body'], proj, depth + 1)
            return out
        if k == 'path' and e.get('res') == 'local':
            b = self.by_id.get(e.get('id'))
            if b and b[1][0] == 'let' and b[1][1] is not None:
                return self.project(b[1][1], list(b[2]) + list(proj), depth + 1)
        return {o + ''.join(proj) for o in self.origins(e, depth + 1)}

    def field_of_struct(self, e, field):
        """e (after deref_local) is a struct literal: return the expression given to `field`"""
        s = self.deref_local(e)
        if isinstance(s, dict) and s.get('k') == 'struct':
            for fl in s['fields']:
                if fl['name'] == field:
                    return fl['e']
        return None


def calls_via_helpers(crate, f, pred, depth=2, _seen=None):
    """Calls whose callee satisfies `pred`, in `f` itself or in private functions of the crate that `f` calls (bounded depth).
    Yields (call_node, ancestors, owner_fn, resolve) where resolve(expr) gives the origins of an operand of that call in terms
    of `f`: origins that are parameters of a helper are replaced by the origins of the argument at the helper's call site."""
    import re as _re
    _seen = _seen or set()
    out = []
    b = Bindings(crate, f)
    for nd, anc in crate.walk_fn(f):
        if nd.get('k') != 'call':
            continue
        c = callee(nd)
        if pred(c):
            out.append((nd, anc, f, (lambda e, b=b: b.origins(e))))
        elif depth > 0 and c in getattr(crate, 'fns', {}) and c not in _seen and c != f.path:
            g = crate.fns[c]
            if getattr(g, 'hir', None) is None:
                continue
            pn = [p.get('name') if isinstance(p, dict) and p.get('k') == 'bind' else None for p in g.params]
            gb = Bindings(crate, g)
            pn = [gb.rename.get(x, x) for x in pn]
            for (c2, anc2, owner, res2) in calls_via_helpers(crate, g, pred, depth - 1, _seen | {f.path}):
                def res(e, res2=res2, site=nd, b=b, pn=pn):
                    out_ = set()
                    for x in res2(e):
                        m = _re.match(r'param\((\w+)\)(.*)$', x)
                        if m and m.group(1) in pn and pn.index(m.group(1)) < len(site['args']):
                            for y in b.origins(site['args'][pn.index(m.group(1))]):
                                out_.add(y + m.group(2))
                        else:
                            out_.add(x)
                    return out_
                out.append((c2, anc2, owner, res))
    return out
