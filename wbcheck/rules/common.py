"""Shared slot fillers: names of the repository's functions / types the rules are anchored on."""
from ..ir import pat_variants, callee, short, walk, ctor_name

WB = 'worterbuch'
COMMON = 'worterbuch_common'
CLIENT = 'worterbuch_client'
ORCH = 'worterbuch_cluster_orchestrator'

V0 = 'server::common::protocol::v0::V0'
V1 = 'server::common::protocol::v1::V1'
PROTO = 'server::common::protocol::Proto'
CORE = 'worterbuch::Worterbuch'
STORE = 'store::Store'

V0_HANDLERS = ['get', 'pget', 'set', 'spub_init', 'spub', 'publish', 'subscribe', 'psubscribe', 'unsubscribe',
               'delete', 'pdelete', 'ls', 'pls', 'subscribe_ls', 'unsubscribe_ls']
V1_HANDLERS = ['cget', 'cset', 'lock', 'acquire_lock', 'release_lock']


def handlers(crate):
    out = []
    for h in V0_HANDLERS:
        out.append((f'V0::{h}', crate.fn(f'{V0}::{h}')))
    for h in V1_HANDLERS:
        out.append((f'V1::{h}', crate.fn(f'{V1}::{h}')))
    return out


def is_mpsc_send(name):
    return name.endswith('mpsc::Sender::<T>::send') or name.endswith('mpsc::Sender::<T>::try_send') \
        or name.endswith('mpsc::Sender::<T>::send_timeout') or name.endswith('mpsc::UnboundedSender::<T>::send')


def is_spawn(name):
    return short(name) in ('spawn', 'spawn_blocking', 'spawn_local') and ('tokio' in name or 'task' in name or
                                                                          'Subsystem' in name or 'subsys' in name.lower())


class _SM(tuple):
    """(variant, payload) of the message sent; `.alts` lists every alternative [(variant, payload, arm-variants, scrutinee)] when the
    message value is chosen by a `match` / `if` (`let msg = match r { Ok(_) => Ack(..), Err(_) => Err(..) }; tx.send(msg)`)"""
    alts = ()


def _message_alternatives(arg, binds, depth=0):
    out = []
    if not isinstance(arg, dict) or depth > 4:
        return out
    arg = binds.deref_local(arg) if binds else arg
    k = arg.get('k')
    c = ctor_name(arg)
    if c and 'ServerMessage::' in c:
        payload = arg['args'][0] if arg.get('k') == 'call' and arg['args'] else None
        return [(short(c), payload, None, None)]
    if k == 'match':
        for arm in arg['arms']:
            vs = frozenset(short(v) for v in pat_variants(arm['pat']))
            for (v, p, _, _) in _message_alternatives(arm['body'], binds, depth + 1):
                out.append((v, p, vs, arg['scrut']))
    elif k == 'if' and 'else' in arg:
        for br in (arg['then'], arg['else']):
            out += _message_alternatives(br, binds, depth + 1)
    elif k == 'block' and 'tail' in arg:
        out += _message_alternatives(arg['tail'], binds, depth + 1)
    return out


def server_message_sent(call, binds):
    """if `call` is `<mpsc sender>.send(ServerMessage::X(..))` return (X, payload expr) else None"""
    if call.get('k') != 'call' or not is_mpsc_send(callee(call)) or len(call['args']) < 2:
        return None
    alts = _message_alternatives(call['args'][1], binds)
    if not alts:
        return None
    r = _SM((alts[0][0], alts[0][1]))
    r.alts = tuple(alts)
    return r


def loc(f, n=None):
    if n is not None and n.get('ln'):
        return f'{f.file}:{n["ln"]}'
    return f.loc


def enum_variants(crate, path):
    a = crate.adt(path)
    return [v['name'] for v in a['variants']]


def deep_text(crate, e):
    """textual dump of an expression including the bodies of the closures it mentions (for literal / name lookups)"""
    out = [str(e)]
    seen = set()
    stack = [e]
    while stack:
        x = stack.pop()
        for nd, a in walk(x):
            if nd.get('k') == 'closure' and nd['def'] not in seen:
                seen.add(nd['def'])
                c = crate.closure(nd['def'])
                if c is not None:
                    out.append(str(c.hir))
                    stack.append(c.hir)
            elif nd.get('k') == 'call':
                # a function that did not exist on the reference tree is part of the expression that calls it
                from ..ir import ref_fns
                known = ref_fns().get(crate.name)
                cp = callee(nd)
                g = getattr(crate, 'fns', {}).get(cp)
                if known is not None and g is not None and cp not in known and cp not in seen and g.kind != 'Closure':
                    seen.add(cp)
                    out.append(str(g.hir))
                    stack.append(g.hir)
    return ' '.join(out)


class Proxy:
    """re-evaluates rules of a sibling property under another rule id, so that a breach is reported under both properties"""

    def __init__(self, rep, to):
        self.rep, self.to = rep, to

    def rule(self, rid, t, text):
        pass

    def ok(self, rid, inst, loc_='', detail=''):
        self.rep.ok(self.to, f'{rid}:{inst}', loc_, detail)

    def violation(self, rid, inst, loc_='', detail='', key=None, expected=''):
        self.rep.violation(self.to, f'{rid}:{inst}', loc_, detail, key=(key or f'{rid}/{inst}').replace(rid, self.to + '/' + rid, 1),
                           expected=expected)

    def floor(self, rid, found, minimum, what):
        self.rep.floor(self.to, found, minimum, f'{rid} {what}')

    def anchor_missing(self, rid, e):
        self.rep.anchor_missing(self.to, e)

    def note(self, t):
        self.rep.note(t)

    @property
    def analysed(self):
        return self.rep.analysed
