"""C15 — with authorization on, a client reaches only keys its token grants (structural clauses)."""
import itertools
from ..ir import callee, short, walk, ctor_name, pat_variants, guards, strip_not, conjuncts, AnchorMissing
from ..trace import Tracer, ok_exits, err_exits, base, peel
from ..prov import Bindings
from ..tables import match_pat, NoMatch
from .common import *
from . import c13

NOT_DECIDED = ('containment for all pattern pairs by enumeration (the step table plus an induction on the segment position '
               'gives it on paper); effect-freedom of rejected requests (the handler is not called: C15.a); the zero-level `#` '
               'leak of C04 (pget a/# under grant a/# returns key a); validity of the JWT library')

# ClientMessage variant -> (privilege, message field the pattern is taken from, ls-family?)
AUTH_TABLE = {
    'Get': ('Read', 'key', False), 'CGet': ('Read', 'key', False), 'PGet': ('Read', 'request_pattern', False),
    'Subscribe': ('Read', 'key', False), 'PSubscribe': ('Read', 'request_pattern', False),
    'Ls': ('Read', 'parent', True), 'PLs': ('Read', 'parent_pattern', True), 'SubscribeLs': ('Read', 'parent', True),
    'Set': ('Write', 'key', False), 'CSet': ('Write', 'key', False), 'SPubInit': ('Write', 'key', False),
    'Publish': ('Write', 'key', False), 'Lock': ('Write', 'key', False), 'AcquireLock': ('Write', 'key', False),
    'ReleaseLock': ('Write', 'key', False), 'Delete': ('Delete', 'key', False), 'PDelete': ('Delete', 'request_pattern', False),
}
EXEMPT = {'SPub': 'authorised at SPubInit (the stream key is looked up by the session\'s own id)',
          'Unsubscribe': 'addresses the session\'s own subscription id', 'UnsubscribeLs': 'addresses the session\'s own subscription id',
          'AuthorizationRequest': 'the authorization itself', 'ProtocolSwitchRequest': 'handled by Proto before dispatch',
          'Transform': 'not implemented: closes the session'}


def rule_a(prog, rep):
    rep.rule('C15.a', 'T2+T4+T7', 'every request kind is checked with the right privilege and the right pattern: in V0/V1::'
             'process_incoming_message each handler call lies on the true edge of check_auth(P, pat, authorized, '
             'msg.transaction_id).await? with P from the table and pat derived from the message field the handler uses '
             '(`<parent>/?` for the ls family); the handler then hands that same field to the core')
    crate = prog.crate(WB)
    n = 0
    for who, path in (('V1', f'{V1}::process_incoming_message'), ('V0', f'{V0}::process_incoming_message')):
        f = crate.fn(path)
        b = Bindings(crate, f)
        m = c13._dispatch_arms(crate, f, 'ClientMessage')
        for arm in m['arms']:
            for v in pat_variants(arm['pat']):
                sv = short(v)
                if v == '_' or sv in EXEMPT:
                    continue
                if sv not in AUTH_TABLE:
                    if who == 'V0' and sv in ('CGet', 'CSet', 'Lock', 'AcquireLock', 'ReleaseLock'):
                        continue
                    rep.violation('C15.a', f'{who}:{sv}', f'{f.file}:{arm.get("ln")}', 'request kind not in the authorization table',
                                  key=f'C15.a/{sv}/unknown')
                    continue
                if who == 'V0' and sv in ('CGet', 'CSet', 'Lock', 'AcquireLock', 'ReleaseLock'):
                    continue  # V0 refuses them (NotImplemented)
                priv, field, lsfam = AUTH_TABLE[sv]
                want_handler = c13.DISPATCH[sv]
                n += 1
                hcalls = [(nd, anc) for nd, anc in walk(arm['body']) if nd.get('k') == 'call' and
                          callee(nd).endswith(want_handler.replace('V0::', 'v0::V0::').replace('V1::', 'v1::V1::'))]
                if len(hcalls) != 1:
                    rep.violation('C15.a', f'{who}:{sv}', f'{f.file}:{arm.get("ln")}', f'{len(hcalls)} calls of {want_handler}',
                                  key=f'C15.a/{sv}/handler-count')
                    continue
                nd, anc = hcalls[0]
                g = [it for it in guards(anc + (nd,)) if it[0] == 'if' and it[2] is True]
                chk = None
                for it in g:
                    core = peel(it[1])
                    if isinstance(core, dict) and core.get('k') == 'call' and callee(core).endswith('V0::check_auth') and \
                            it[1].get('k') == 'try':
                        chk = core
                if chk is None:
                    rep.violation('C15.a', f'{who}:{sv}', loc(f, nd), f'{want_handler} is called outside `if check_auth(..).await?`',
                                  key=f'C15.a/{sv}/unguarded', expected='handler only on the true edge of check_auth')
                    continue
                a = chk['args']
                pc = short(ctor_name(a[1]) or '?')
                po = b.origins(a[2])
                to = b.origins(a[4])
                ao = b.origins(a[3])
                problems = []
                if pc != priv:
                    problems.append(f'privilege {pc} (expected {priv})')
                if not all(x.startswith(f'param(msg)#{sv}') and (f'.{field}' in x) for x in po if not x.startswith('lit(')):
                    problems.append(f'pattern <- {sorted(po)} (expected msg.{field})')
                if not any(f'.{field}' in x for x in po):
                    problems.append(f'pattern does not derive from msg.{field}')
                if lsfam:
                    txt = deep_text(crate, b.deref_local(a[2]))
                    if '/?' not in txt or "'v': '?'" not in txt:
                        problems.append('ls-family pattern is not `<parent>/?` with default `?`')
                if to != {f'param(msg)#{sv}.0.transaction_id'} and to != {f'param(msg)#{sv}.transaction_id'}:
                    problems.append(f'transaction id <- {sorted(to)}')
                if ao != {'param(authorized)'}:
                    problems.append(f'claims <- {sorted(ao)}')
                if problems:
                    rep.violation('C15.a', f'{who}:{sv}', loc(f, chk), '; '.join(problems), key=f'C15.a/{sv}/' + '|'.join(problems))
                else:
                    rep.ok('C15.a', f'{who}:{sv}', loc(f, chk), f'check_auth({priv}, msg.{field}{"/?" if lsfam else ""}) guards {want_handler}')
    rep.floor('C15.a', n, 17, 'authorised request kinds')
    # the handlers use the checked field
    HFIELD = {'V0::get': 'key', 'V0::pget': 'request_pattern', 'V0::set': 'key', 'V0::spub_init': 'key', 'V0::publish': 'key',
              'V0::subscribe': 'key', 'V0::psubscribe': 'request_pattern', 'V0::delete': 'key', 'V0::pdelete': 'request_pattern',
              'V0::ls': 'parent', 'V0::pls': 'parent_pattern', 'V0::subscribe_ls': 'parent', 'V1::cget': 'key', 'V1::cset': 'key',
              'V1::lock': 'key', 'V1::acquire_lock': 'key', 'V1::release_lock': 'key'}
    for name, f in handlers(crate):
        if name not in HFIELD:
            continue
        b = Bindings(crate, f)
        api = [nd for nd, anc in crate.walk_fn(f) if nd.get('k') == 'call' and 'WbApi for server::CloneableWbApi' in callee(nd)
               and not any(is_spawn(callee(a)) for a in anc if a.get('k') == 'call') and short(callee(nd)) != 'config']
        hit = False
        for nd in api:
            for a in nd['args'][1:]:
                if b.origins(a) == {f'param(msg).{HFIELD[name]}'}:
                    hit = True
        if hit:
            rep.ok('C15.a', f'{name}:field', f.loc, f'core call uses msg.{HFIELD[name]} (the checked field)')
        else:
            rep.violation('C15.a', f'{name}:field', f.loc, f'core call does not use msg.{HFIELD[name]}', key=f'C15.a/{name}/field')


def rule_a_rest(prog, rep):
    rep.rule('C15.a-rest', 'T2', 'REST: every handler of server::axum that receives the optional claims authorizes (with the '
             'privilege and pattern of its request kind, propagating the refusal with `?`) before its first core call, on every '
             'path on which claims are present')
    crate = prog.crate(WB)
    TABLE = {'export': ('Read', 'lit(#)'), 'import': ('Write', 'lit(#)'), 'get_value': ('Read', 'key'), 'pget': ('Read', 'pattern'),
             'set': ('Write', 'key'), 'publish': ('Write', 'key'), 'delete_value': ('Delete', 'key'), 'pdelete': ('Delete', 'pattern'),
             'ls': ('Read', 'parent'), 'ls_root': ('Read', 'lit(?)'), 'subscribe': ('Read', 'key'), 'psubscribe': ('Read', 'key'),
             'subscribels_root': ('Read', 'lit(?)'), 'subscribels': ('Read', 'parent')}
    n = 0
    for f in crate.top_fns():
        if not f.path.startswith('server::axum::') or f.path.count('::') != 2:
            continue
        if 'auth::JwtClaims' not in f.sig:
            continue
        name = short(f.path)
        api = crate.calls(f, lambda c: 'WbApi for server::CloneableWbApi' in c and short(c) not in ('config',))
        if not api and name not in TABLE:
            continue
        b = Bindings(crate, f)

        def classify(nd, anc):
            if nd.get('k') != 'call':
                return None
            c = callee(nd)
            if c.endswith('JwtClaims::authorize'):
                return 'authz'
            if 'WbApi for server::CloneableWbApi' in c and short(c) != 'config' or c.endswith('axum::connected'):
                return 'api'
            return None
        paths = Tracer(crate, classify, max_paths=50000).run_fn(f, seed_params=('privileges',))
        n += 1
        bad = None
        for (ex, t, v) in paths:
            tb = [base(x) for x in t]
            if 'api' not in tb:
                continue
            i = tb.index('api')
            if 'privileges@None' in tb[:i]:
                continue
            if 'authz' not in tb[:i] or ('authz@Err' in tb[:i]):
                bad = t
                break
        if name not in TABLE:
            rep.violation('C15.a-rest', name, f.loc, 'REST handler with claims and core calls is not in the table', key=f'C15.a-rest/{name}/unknown')
            continue
        ac = crate.calls(f, lambda c: c.endswith('JwtClaims::authorize'))
        problems = []
        if bad is not None:
            problems.append(f'core call reachable without a successful authorize: {list(bad)}')
        if len(ac) != 1:
            problems.append(f'{len(ac)} authorize calls')
        else:
            a = ac[0][0]['args']
            pc = short(ctor_name(b.deref_local(a[1])) or '?')
            pat = a[2]
            po = b.origins(pat['args'][0]) if pat.get('k') == 'call' and pat['args'] else set()
            wantp, wantsrc = TABLE[name]
            if pc != wantp:
                problems.append(f'privilege {pc} (expected {wantp})')
            if wantsrc.startswith('lit('):
                if po != {wantsrc}:
                    problems.append(f'pattern <- {sorted(po)} (expected {wantsrc})')
            else:
                txt = deep_text(crate, b.deref_local(pat))
                if not (any(wantsrc in x for x in po) or f"'name': '{wantsrc}'" in txt):
                    problems.append(f'pattern does not derive from `{wantsrc}`: {sorted(po)}')
                if name in ('ls', 'subscribels') and '/?' not in txt:
                    problems.append('ls-family pattern is not `<parent>/?`')
        if problems:
            rep.violation('C15.a-rest', name, f.loc, '; '.join(problems), key=f'C15.a-rest/{name}/' + '|'.join(p.split(':')[0] for p in problems))
        else:
            rep.ok('C15.a-rest', name, f.loc, f'authorize({TABLE[name][0]}, {TABLE[name][1]}) precedes every core call')
    rep.floor('C15.a-rest', n, 14, 'REST handlers with claims')
    # bearer_auth is layered on the router
    r = crate.fn('server::axum::build_worterbuch_router')
    txt = ' '.join(str(nd.get('path')) for nd, a in crate.walk_fn(r) if nd.get('k') == 'path')
    if '::bearer_auth' in txt and any(short(callee(nd)) in ('from_fn_with_state', 'from_fn') for nd, a in crate.calls(r)):
        rep.ok('C15.a-rest', 'router:bearer_auth', r.loc, 'the API router is wrapped with the bearer_auth middleware')
    else:
        rep.violation('C15.a-rest', 'router:bearer_auth', r.loc, 'bearer_auth middleware is not layered on the router', key='C15.a-rest/router')


def rule_b(prog, rep):
    rep.rule('C15.b', 'T5/T6', 'check_auth table: auth off -> Ok(true); claims present: authorize Ok -> Ok(true), Err -> error '
             'message to the client + Ok(false); no claims -> Err(AuthorizationRequired). JwtClaims::authorize: Read/Write/Delete '
             'read the same-named grant list, a missing list denies, Ok only if some granted pattern contains the request')
    crate = prog.crate(WB)
    f = crate.fn(f'{V0}::check_auth')
    b = Bindings(crate, f)

    def classify(nd, anc):
        if nd.get('k') != 'call':
            return None
        c = callee(nd)
        if c.endswith('JwtClaims::authorize'):
            return 'authz'
        if c.endswith('V0::handle_store_error'):
            return 'errmsg'
        cn = ctor_name(nd)
        if cn and short(cn) == 'Ok' and nd['args'] and nd['args'][0].get('k') == 'lit':
            return 'ret:' + str(nd['args'][0]['v']['v'])
        if cn and 'WorterbuchError::AuthorizationRequired' in cn:
            return 'E:AuthorizationRequired'
        return None
    paths = Tracer(crate, classify, cond_events=('auth_required',)).run_fn(f, seed_params=('authorized',))
    res = []
    seen = set()
    for (ex, t, v) in paths:
        tb = [base(x) for x in t]
        if '?auth_required=0' in tb:
            seen.add('off')
            if tb[-1] != 'ret:True' or 'authz' in tb:
                res.append(f'auth off: {tb}')
        elif 'authorized@None' in tb:
            seen.add('none')
            if 'E:AuthorizationRequired' not in tb or any(x.startswith('ret:') for x in tb):
                res.append(f'no claims: {tb}')
        elif 'authz@Err' in tb:
            seen.add('deny')
            if ex == 'ret' and v != 'err':
                if 'errmsg' not in tb or tb[-1] != 'ret:False':
                    res.append(f'denied: {tb}')
        elif 'authz' in tb:
            seen.add('grant')
            if tb[-1] != 'ret:True':
                res.append(f'granted: {tb}')
        else:
            res.append(f'path without a decision: {tb}')
    if seen != {'off', 'none', 'deny', 'grant'}:
        res.append(f'cases found: {sorted(seen)}')
    az = crate.calls(f, lambda c: c.endswith('JwtClaims::authorize'))
    if len(az) != 1 or b.origins(az[0][0]['args'][1]) != {'param(privilege)'} or \
            not (ctor_name(az[0][0]['args'][2]) or '').endswith('AuthCheck::Pattern') or \
            b.origins(az[0][0]['args'][2]['args'][0]) != {'param(pattern)'} or \
            not any('param(authorized)' in x for x in b.origins(az[0][0]['args'][0])):
        res.append('authorize is not called as claims.authorize(&privilege, AuthCheck::Pattern(pattern))')
    if res:
        rep.violation('C15.b', 'check_auth', f.loc, '; '.join(res)[:900], key='C15.b/check_auth/' + '|'.join(sorted(set(r.split(':')[0] for r in res))))
    else:
        rep.ok('C15.b', 'check_auth', f.loc, 'off -> true; no claims -> Err(AuthorizationRequired); deny -> message + false; grant -> true')
    # JwtClaims::authorize
    a = crate.fn('auth::JwtClaims::authorize')
    ab = Bindings(crate, a)
    ms = [nd for nd, anc in crate.walk_fn(a) if nd.get('k') == 'match' and 'Privilege' in str(nd.get('scrut_ty'))]
    if len(ms) != 1:
        raise AnchorMissing('match over Privilege in JwtClaims::authorize')
    for var, fld in (('Read', 'read'), ('Write', 'write'), ('Delete', 'delete')):
        arm = [x for x in ms[0]['arms'] if {short(v) for v in pat_variants(x['pat'])} == {var}]
        if len(arm) != 1:
            rep.violation('C15.b', f'authorize:{var}', a.loc, 'no dedicated arm', key=f'C15.b/authorize/{var}/arm')
            continue
        body = arm[0]['body']
        fields = {nd['name'] for nd, anc in walk(body) if nd.get('k') == 'field' and 'Privileges' in str(nd.get('base_ty'))}
        pm = []
        for nd, anc in walk(body):
            if nd.get('k') == 'closure':
                cl = crate.closure(nd['def'])
                pm += [x for x, _ in walk(cl.hir) if x.get('k') == 'call' and callee(x) == 'auth::pattern_matches']
        oks = [(nd, anc) for nd, anc in walk(body) if nd.get('k') == 'call' and short(callee(nd)) == 'Ok']
        ok_guarded = all(any(it[0] == 'if' and it[2] is True and any(x.get('k') == 'call' and short(callee(x)) == 'any' for x, _ in walk(it[1]))
                             for it in guards(anc + (nd,))) for nd, anc in oks) and bool(oks)
        default_empty = any(nd.get('k') == 'call' and short(callee(nd)) == 'unwrap_or' and 'EMPTY_PRIVILEGES' in str(nd['args'][1])
                            for nd, anc in walk(body))
        pm_ok = len(pm) == 1 and pm[0]['args'][0].get('k') in ('path', 'ref') and \
            any('AuthCheck' in str(it) or 'Pattern' in x for x in ab.origins(pm[0]['args'][1]) for it in [x])
        if fields == {fld} and pm_ok and ok_guarded and default_empty:
            rep.ok('C15.b', f'authorize:{var}', f'{a.file}:{arm[0].get("ln")}', f'reads .{fld}; missing list denies; Ok only if any(pattern_matches(grant, request))')
        else:
            rep.violation('C15.b', f'authorize:{var}', f'{a.file}:{arm[0].get("ln")}',
                          f'grant list fields={sorted(fields)}, pattern_matches(grant, request)={pm_ok}, Ok-under-any={ok_guarded}, '
                          f'missing-list-denies={default_empty}', key=f'C15.b/authorize/{var}', expected=f'.{fld}')


SEGS = {'end': ('variant', 'None', ()),
        'a': ('variant', 'Some', (('variant', 'Regular', (('val', 'a'),)),)),
        'b': ('variant', 'Some', (('variant', 'Regular', (('val', 'b'),)),)),
        '?': ('variant', 'Some', (('variant', 'Wildcard', ()),)),
        '#': ('variant', 'Some', (('variant', 'MultiWildcard', ()),))}


def _pm_cond(e, env, lets=None):
    lets = lets or {}
    k = e.get('k')
    if k == 'block' and not e.get('stmts') and 'tail' in e:
        return _pm_cond(e['tail'], env, lets)
    if k == 'path' and e.get('res') == 'local' and e.get('id') in lets:
        return _pm_cond(lets[e['id']], env, lets)
    if k == 'binary' and e['op'] in ('And', 'Or'):
        l = _pm_cond(e['l'], env, lets)
        if e['op'] == 'And':
            return l and _pm_cond(e['r'], env, lets)
        return l or _pm_cond(e['r'], env, lets)
    if k == 'unary' and e['op'] == 'Not':
        return not _pm_cond(e['e'], env, lets)
    if k == 'binary' and e['op'] in ('Eq', 'Ne'):
        def val(x):
            while x.get('k') in ('ref',):
                x = x['e']
            if x.get('k') == 'path' and x.get('res') == 'local':
                return env[x['id']]
            cn = ctor_name(x)
            if cn and 'KeySegment::' in cn:
                return ('variant', short(cn), ())
            raise NoMatch('operand')
        eq = val(e['l']) == val(e['r'])
        return eq if e['op'] == 'Eq' else not eq
    raise NoMatch('condition ' + str(k))


def _pm_out(b, env, lets=None):
    lets = dict(lets or {})
    while b.get('k') == 'block':
        # `let matches = <condition>;` statements ahead of the deciding statement name a condition
        stmts = list(b.get('stmts', []))
        while stmts and stmts[0].get('k') in ('let', 'nop'):
            st = stmts.pop(0)
            if st.get('k') == 'let' and st['pat'].get('k') == 'bind' and st.get('init') is not None:
                lets[st['pat']['id']] = st['init']
        if not stmts and 'tail' in b:
            b = b['tail']
        elif len(stmts) == 1 and 'tail' not in b:
            b = stmts[0]
        elif len(stmts) == 1 and 'tail' in b and stmts[0].get('k') == 'if' and 'else' not in stmts[0]:
            # `if c { return .. }` followed by the tail: the tail is the else
            if _pm_cond(stmts[0]['cond'], env, lets):
                return _pm_out(stmts[0]['then'], env, lets)
            b = b['tail']
        elif len(stmts) == 1 and stmts[0].get('k') == 'if' and 'else' not in stmts[0] and 'tail' not in b:
            b = stmts[0]
        else:
            raise NoMatch('block')
    k = b.get('k')
    if k == 'return':
        if b['e'].get('k') == 'lit':
            return 'return ' + str(b['e']['v']['v']).lower()
        raise NoMatch('return value')
    if k == 'continue':
        return 'continue'
    if k == 'if':
        if _pm_cond(b['cond'], env, lets):
            return _pm_out(b['then'], env, lets)
        return _pm_out(b['else'], env, lets) if 'else' in b else 'continue'
    raise NoMatch('outcome ' + str(k))


def rule_c(prog, rep):
    rep.rule('C15.c', 'T5', 'containment step table: the match in auth::pattern_matches evaluated over (grant segment, request '
             'segment) in {end, literal a, literal b, ?, #}^2 is: (end,end) -> accept; (#, any segment) -> accept; (end,_) and '
             '(_,end) -> reject; (?, not #) -> continue; equal segments -> continue; otherwise reject. With this table acceptance '
             'implies that every key the request matches is matched by the grant (induction over the position)')
    crate = prog.crate(WB)
    f = crate.fn('auth::pattern_matches')
    ms = [nd for nd, anc in crate.walk_fn(f) if nd.get('k') == 'match' and nd['scrut'].get('k') == 'tuple']
    if len(ms) != 1:
        raise AnchorMissing('match over (grant, request) in pattern_matches')
    m = ms[0]
    b = Bindings(crate, f)
    # operands: (pattern.next().map(KeySegment::from), key.next().map(KeySegment::from))
    el = m['scrut']['elems']

    def seg_source(e):
        """<x>.next().map(KeySegment::from) where x = <param>.split('/')"""
        nx = [nd for nd, a in walk(e) if nd.get('k') == 'call' and short(callee(nd)) == 'next']
        conv = 'Option<worterbuch_common::KeySegment>' in str(e.get('ty'))
        if len(nx) != 1 or not conv:
            return {'?'}
        it = b.deref_local(nx[0]['args'][0])
        if isinstance(it, dict) and it.get('k') == 'call' and short(callee(it)) == 'split' and \
                it['args'][1].get('k') == 'lit' and it['args'][1]['v'].get('v') == '/':
            return b.origins(it['args'][0])
        return {'?'}
    o0, o1 = seg_source(el[0]), seg_source(el[1])
    if not (o0 == {'param(pattern)'} and o1 == {'param(key)'}):
        rep.violation('C15.c', 'operands', loc(f, m), f'scrutinee derives from {sorted(o0)} / {sorted(o1)}', key='C15.c/operands',
                      expected='(next grant segment, next request segment)')
        return
    inloop = any(a.get('k') == 'loop' for nd, anc in crate.walk_fn(f) if nd is m for a in anc)
    n = 0
    for g, r in itertools.product(SEGS, SEGS):
        row = f'grant={g},request={r}'
        try:
            got = 'NO ARM'
            for arm in m['arms']:
                env = {}
                if match_pat(arm['pat'], (SEGS[g], SEGS[r]), env):
                    got = _pm_out(arm['body'], env)
                    break
        except NoMatch as e:
            rep.violation('C15.c', row, loc(f, m), f'unrecognised-shape: {e}', key='C15.c/unrecognised-shape')
            return
        if g == 'end' and r == 'end':
            want = 'return true'
        elif g == '#' and r != 'end':
            want = 'return true'
        elif g == 'end' or r == 'end':
            want = 'return false'
        elif g == '?' and r != '#':
            want = 'continue'
        elif g == r:
            want = 'continue'
        else:
            want = 'return false'
        n += 1
        if got == want:
            rep.ok('C15.c', row, loc(f, m), f'-> {got}')
        else:
            rep.violation('C15.c', row, loc(f, m), f'pattern_matches step ({row}) -> {got}', key=f'C15.c/{row}/{got}', expected=want)
    if not inloop:
        rep.violation('C15.c', 'loop', f.loc, 'the step is not iterated over the segments', key='C15.c/loop')
    rep.floor('C15.c', n, 25, 'step table rows')


def rule_d(prog, rep):
    rep.rule('C15.d', 'T1', 'token validation: get_claims reaches jsonwebtoken::decode with Validation::new(alg) where alg is one of '
             'the three accepted algorithms of the token header; signature / expiry validation is never switched off anywhere '
             'in the workspace; a missing token or secret is an error')
    crate = prog.crate(WB)
    f = crate.fn('auth::get_claims')
    b = Bindings(crate, f)
    dec = crate.calls(f, lambda c: c.endswith('jsonwebtoken::decode') or short(c) == 'decode' and 'jsonwebtoken' in c)
    val = crate.calls(f, lambda c: c.endswith('Validation::new'))
    res = []
    if len(dec) != 1 or len(val) != 1:
        res.append(f'{len(dec)} decode calls, {len(val)} Validation::new calls')
    else:
        vo = b.origins(dec[0][0]['args'][2])
        if not any('Validation::new' in x for x in vo):
            res.append(f'decode validation <- {sorted(vo)}')
        to = b.origins(dec[0][0]['args'][0])
        if to != {'param(jwt)#Some'} and not all('param(jwt)' in x for x in to):
            res.append(f'decoded token <- {sorted(to)}')
    ms = [nd for nd, anc in crate.walk_fn(f) if nd.get('k') == 'match' and 'Algorithm' in str(nd.get('scrut_ty'))]
    if len(ms) != 1:
        res.append('no match over the header algorithm')
    else:
        algs = set()
        for arm in ms[0]['arms']:
            vs = {short(v) for v in pat_variants(arm['pat'])}
            if vs == {'_'}:
                if not any(x.get('k') == 'return' for x, _ in walk(arm['body'])):
                    res.append('other algorithms are not rejected')
            else:
                algs |= vs
        if algs != {'ES256', 'EdDSA', 'HS256'}:
            res.append(f'accepted algorithms {sorted(algs)}')
    for cr in (WB, COMMON):
        c = prog.crate(cr)
        for fn_ in c.top_fns():
            for nd, anc in c.walk_fn(fn_):
                if nd.get('k') == 'call' and short(callee(nd)) in ('insecure_disable_signature_validation', 'dangerous_insecure_decode',
                                                                   'insecure_decode'):
                    res.append(f'{fn_.path} calls {short(callee(nd))}')
                if nd.get('k') == 'assign' and nd['l'].get('k') == 'field' and 'Validation' in str(nd['l'].get('base_ty')) and \
                        nd['l']['name'] in ('validate_exp', 'validate_nbf', 'validate_aud', 'required_spec_claims', 'leeway', 'algorithms'):
                    res.append(f'{fn_.path} overrides Validation.{nd["l"]["name"]}')
    errs = {short(ctor_name(nd)) for nd, anc in crate.walk_fn(f) if ctor_name(nd) and 'AuthorizationError::' in ctor_name(nd)}
    if not {'MissingToken', 'MissingSecret'} <= errs:
        res.append('missing token / secret are not errors')
    if res:
        rep.violation('C15.d', 'get_claims', f.loc, '; '.join(res), key='C15.d/' + '|'.join(res))
    else:
        rep.ok('C15.d', 'get_claims', f.loc, 'decode(token, key, &Validation::new(alg)) with alg in {ES256, EdDSA, HS256}; no validation override')
    # V0::authorize: claims only from get_claims with the token of the request
    a = crate.fn(f'{V0}::authorize')
    ab = Bindings(crate, a)
    gc = crate.calls(a, lambda c: c == 'auth::get_claims')
    if len(gc) == 1 and all('param(msg).auth_token' in x for x in ab.origins(gc[0][0]['args'][0])):
        rep.ok('C15.d', 'V0::authorize', a.loc, 'claims <- get_claims(msg.auth_token, config)')
    else:
        rep.violation('C15.d', 'V0::authorize', a.loc, 'claims do not come from get_claims(msg.auth_token)', key='C15.d/V0::authorize')


def rule_e(prog, rep):
    rep.rule('C15.e', 'T2', 'nothing before authorization: the only dispatch arms not guarded by check_auth are the tabled exempt '
             'ones; the authorized claims are only written by the AuthorizationRequest arm, from V0::authorize')
    crate = prog.crate(WB)
    f = crate.fn(f'{V0}::process_incoming_message')
    b = Bindings(crate, f)
    writes = [(nd, anc) for nd, anc in crate.walk_fn(f) if nd.get('k') == 'assign' and 'authorized' in str(nd['l'])[:200]]
    good = len(writes) == 1 and any('V0::authorize' in x for x in b.origins(writes[0][0]['r']))
    if good:
        arm = [it for it in guards(writes[0][1] + (writes[0][0],)) if it[0] == 'match']
        good = bool(arm) and {short(v) for v in pat_variants(arm[-1][2]['pat'])} == {'AuthorizationRequest'}
    if good:
        rep.ok('C15.e', 'authorized=', loc(f, writes[0][0]), 'claims are stored only by the AuthorizationRequest arm, from V0::authorize(msg)')
    else:
        rep.violation('C15.e', 'authorized=', f.loc, 'the session\'s claims are written elsewhere / from another source',
                      key='C15.e/authorized-write')
    for fn_ in crate.top_fns():
        if fn_.path.startswith('server::') and fn_.path != f.path:
            for nd, anc in crate.walk_fn(fn_):
                if nd.get('k') == 'assign' and nd['l'].get('k') == 'unary' and 'authorized' in str(nd['l'])[:200] and 'JwtClaims' in str(nd)[:2000]:
                    rep.violation('C15.e', f'{fn_.path}:authorized=', loc(fn_, nd), 'claims written outside the dispatch', key=f'C15.e/{fn_.path}')
    # the tcp/unix/ws sessions start unauthorised
    n = 0
    for fn_ in crate.top_fns():
        if fn_.path.startswith('server::') and any((ctor_name(nd) or '').endswith('ServeLoop') for nd, a in crate.walk_fn(fn_)):
            bb = Bindings(crate, fn_)
            for nd, a in crate.walk_fn(fn_):
                if nd.get('k') == 'struct' and (nd.get('path') or '').endswith('ServeLoop'):
                    au = [x['e'] for x in nd['fields'] if x['name'] == 'authorized']
                    n += 1
                    if au and all('None' in x for x in bb.origins(au[0])):
                        rep.ok('C15.e', f'{fn_.path}:initial', loc(fn_, nd), 'session starts with authorized = None')
                    else:
                        rep.violation('C15.e', f'{fn_.path}:initial', loc(fn_, nd), 'session does not start unauthorised', key=f'C15.e/{fn_.path}/initial')
    rep.floor('C15.e', n, 2, 'session constructions')


RULES = [('C15.a', rule_a), ('C15.a-rest', rule_a_rest), ('C15.b', rule_b), ('C15.c', rule_c), ('C15.d', rule_d), ('C15.e', rule_e)]
