"""Decision tables (rule template T5): evaluate a `match` over abstract values.

Abstract values:
  ('variant', Name, (fields...))   enum variant / tuple struct
  ('bool', True/False)
  ('ver', 'zero'|'nonzero'|'any', tag)        an integer we only compare with literals and with other tagged integers
  ('val', tag)                     an opaque value
  tuples of the above for tuple scrutinees
"""
from .ir import short


class NoMatch(Exception):
    """the construct left the finite shape the table evaluator understands: fail closed (unrecognised-shape)"""


def _last(p):
    return short(p.get('ctor_of') or p.get('path') or '')


def match_pat(p, val, env):
    k = p['k']
    if k == 'wild':
        return True
    if k == 'bind':
        env[p['id']] = val
        env['name:' + p['name']] = val
        if 'sub' in p:
            return match_pat(p['sub'], val, env)
        return True
    if k == 'por':
        for alt in p['alts']:
            e2 = dict(env)
            if match_pat(alt, val, e2):
                env.update(e2)
                return True
        return False
    if k == 'ptuple':
        if not isinstance(val, tuple) or len(val) != len(p['args']) or (val and val[0] in ('variant', 'bool', 'ver', 'val')):
            raise NoMatch('tuple pattern against ' + str(val))
        return all(match_pat(pp, vv, env) for pp, vv in zip(p['args'], val))
    if k == 'ppath':
        if isinstance(val, tuple) and val and val[0] == 'variant':
            return val[1] == _last(p)
        raise NoMatch('path pattern against ' + str(val))
    if k == 'pstruct' and not p['fields']:
        return isinstance(val, tuple) and val[0] == 'variant' and val[1] == _last(p)
    if k == 'pctor':
        if not (isinstance(val, tuple) and val and val[0] == 'variant'):
            raise NoMatch('ctor pattern against ' + str(val))
        if val[1] != _last(p):
            return False
        return all(match_pat(pp, vv, env) for pp, vv in zip(p['args'], val[2]))
    if k == 'plit':
        lit = p['v']['v']
        if isinstance(val, tuple) and val[0] == 'bool':
            return val[1] == lit
        if isinstance(val, tuple) and val[0] == 'ver':
            if lit != 0 or val[1] == 'any':
                raise NoMatch('integer literal other than 0, or unconstrained integer')
            return val[1] == 'zero'
        raise NoMatch('literal against ' + str(val))
    if k == 'pguard':
        raise NoMatch('guard pattern')
    raise NoMatch('pattern kind ' + k)


def strip_block(b):
    while isinstance(b, dict) and b.get('k') == 'block':
        if not b['stmts'] and 'tail' in b:
            b = b['tail']
        elif len(b['stmts']) == 1 and 'tail' not in b:
            b = b['stmts'][0]
        else:
            break
    return b


def local_val(e, env):
    while isinstance(e, dict) and e.get('k') in ('ref', 'unary', 'cast'):
        e = e['e']
    if isinstance(e, dict) and e.get('k') == 'path' and e.get('res') == 'local':
        if e.get('id') in env:
            return env[e['id']]
    return None
