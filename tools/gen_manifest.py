#!/usr/bin/env python3
"""Regenerates /verif/MANIFEST.json from the table below + which rule modules exist + known_findings.json."""
import json
import os
import subprocess

VERIF = os.path.dirname(os.path.dirname(os.path.abspath(__file__)))

# property -> (clauses decided, technique, design ref)
CLAIMS = {
    'C01': ('error atomicity of the core write functions (no Err exit after a store mutation), no half-created tree branches, '
            'entry-count bookkeeping, delete prunes, request key -> core read mapping, import stores every entry, delete removes one entry', 'path-effect analysis over resolved HIR + fallibility fixpoint + who-may-write', '4/C01'),
    'C02': ('decision table of Store::insert over (current, new, force, version relation), reported version table, single-owner '
            'type shape of the core, one request = one core call (operands in order), unchecked version arithmetic, client retry-loop provenance, '
            'core hands value / version / force to the store unchanged, the client examines the server verdict',
            'decision-table extraction from match/if + type-shape lint + MIR overflow-assert lookup', '4/C02'),
    'C03': ('notify after every mutation, notify flags, unique filter table, event kind mapping, snapshot into the registered '
            'sender before return, unsubscribe/disconnect reach the subscriber registry, Ack before forwarder, aggregator conflict '
            'flush (truth table), every registration recorded in the table unsubscribe works from, subscribe operands (live_only default)',
            'path-effect analysis + provenance + match tables', '4/C03'),
    'C04': ('every matcher has an arm per wildcard kind, pget/pdelete traversals agree per segment kind, zero-level # agreement '
            'between store and subscriber matcher, up-front rejection of non-trailing #, segment classification, removal discipline of the '
            'delete traversals (take_value / drop_children / trim only), traversal results propagated, path reconstruction', 'sibling cross-check of match arms over KeySegment', '4/C04'),
    'C05': ('ls notifications forwarded on every Ok path, tree mutators report ls changes, report after prune, initial list sent, '
            'data tree and ls-subscriber tree walked in lockstep',
            'path-effect analysis + sibling check store/core', '4/C05'),
    'C06': ('who writes Lock.holder / candidates, grant tables of Store::lock/unlock, confirmation only to the holder, session end '
            'releases and dequeues, lock tree stays clean, shape of Lock::queue, core propagates the store verdict, releasing one key touches no other lock', 'who-may-write over MIR field writes + decision tables + path effects', '4/C06'),
    'C07': ('disconnected is reached on every path after connected in every front end, order of the clean-up steps inside '
            'Worterbuch::disconnected, identity and force operands of grave goods / last will, registrations recorded in the clean-up tables, the Disconnected request reaches the clean-up', 'path-effect + ordered-trace analysis + provenance', '4/C07'),
    'C08': ('guard coverage of every client-reachable mutator, the guard decision table, pattern awareness of the guard, '
            'internal client id not forgeable', 'dominance of guard calls + decision table + provenance', '4/C08'),
    'C09': ('shape lint of persisted types, writer/reader envelope agreement, $SYS stripped on export, load chain order and '
            'checksum validation, registrations applied on load (every entry, no early exit), both files rewritten per flush, exported '
            'registration lists are complete, $SYS stripped by exact segment', 'serde shape lint + ordered-trace analysis', '4/C09'),
    'C10': ('commit point (slot selector) last, loading does not write, atomic replace order, one snapshot per flush, periodic and '
            'shutdown flush agree, write_and_check always rewrites data + checksum and reads nothing back, a flipped selector is followed by a write attempt', 'ordered-trace analysis + who-may-call with constant operand', '4/C10'),
    'C11': ('mirror table completeness and fidelity, forward on every path, join without await gap, state-sync fully consumed, '
            'follower refuses writes, registration forwarding, every follower gets every command, import / join mirrored in full', 'match tables + provenance + writer/reader field agreement', '4/C11'),
    'C12': ('state-sync consumption, roles imply persistence (def-use order), follower persists, restore before serving, '
            'orchestrator role flags', 'ordered-trace analysis + provenance', '4/C12'),
    'C13': ('exactly one terminal message on every Ok path of the 20 handlers, answer kind table, transaction-id provenance, '
            'no `?` on core results, total dispatch, error-code table, Ack before forwarder, Proto delegation and session continuation, the core '
            'answers every request exactly once, a waiting acquire does not block the session',
            'path-effect analysis over resolved HIR + match tables + provenance', '4/C13'),
    'C14': ('serde shape lint over the message closure, resolved serde_json features, single-line writers, partial-write accumulation, a failed line write ends the stream',
            'serde shape lint (syn) + cargo metadata + who-may-call', '4/C14'),
    'C15': ('every request kind checked with the right privilege and pattern before its handler, check_auth/authorize tables, '
            'containment step table of pattern_matches, token validation calls, REST handlers authorize',
            'guard dominance + match tables + decision table', '4/C15'),
    'C16': ('flush before conflicting insert, FIFO buffers, timer-flag typestate, snapshot unbatched, timers are never cancelled',
            'guard structure + who-may-write + type-shape', '4/C16'),
    'C17': ('inventory of panic-capable sites reachable from client input over the message-hop call graph, request errors do not '
            'leave the core loops, decode errors end only the session, one task per connection; the invariants behind reviewed assertions '
            '(tree cleanliness, $SYS guard indices) are evaluated, not assumed',
            'call-graph reachability with message hops + reviewed panic-site table', '4/C17'),
    'C18': ('every accepted change queued in order, batch writer keeps order, begin_write/commit pairing, load order, '
            'writer/reader version agreement, an unappliable registration does not abort the load, the change that opens a batch is written, session end clears pending registrations', 'path-effect analysis + match tables', '4/C18'),
    'C19': ('Leader outcome guarded by votes >= quorum, who writes the vote counter and under which guards, quorum arithmetic, '
            'Follower only from a heartbeat request of a configured peer, role/outcome mapping',
            'guard dominance + who-may-write + decision table + provenance', '4/C19'),
    'C20': ('command table (sync/async siblings build the same-named message), callback kind vs answer kind, delivery table, fresh '
            'ids, send-buffer field pairing, unsubscribe drops local routing, the server verdict reaches the caller, the receive branch is cancel safe', 'match tables + sibling agreement + field pairing', '4/C20'),
}


def main():
    props = [json.loads(l) for l in open(os.path.join(VERIF, 'properties.jsonl'))]
    implemented = {p['id'] for p in props if os.path.exists(os.path.join(VERIF, 'wbcheck', 'rules', p['id'].lower() + '.py'))}
    try:
        log = subprocess.check_output(['git', '-C', '/repo', 'log', '--format=%h %s', '653bce2..HEAD'], text=True).splitlines()
    except Exception:
        log = []
    fixes = [l.split()[0] for l in log if l.split(' ', 1)[1].startswith('fix:')]
    checks = []
    for p in props:
        pid = p['id']
        if pid not in implemented:
            continue
        clauses, tech, ref = CLAIMS[pid]
        checks.append({
            'property_id': pid,
            'quick_cmd': f'./check {pid}',
            'thorough_cmd': f'./check {pid} --tier thorough',
            'evidence_file': f'/verif/evidence/{pid}.json',
            'replay_cmd_template': './check ' + pid + ' --explain {path}',
            'engine': 'wbcheck',
            'level_claimed': {
                'category': 'other',
                'text': 'Static analysis of necessary structural conditions, decided on every path / arm / call site of the '
                        'anchored code in the current source: ' + clauses + '. The behavioural statement as a whole (its '
                        'quantification over histories, schedules, crash points, inputs) is NOT decided; the evidence file '
                        'lists what is not decided. This is the level static analysis can reach soundly here: each clause is '
                        'a necessary condition whose breach breaks the property for some input or schedule.',
                'design_ref': 'DESIGN.md section ' + ref,
            },
            'level_note': 'trusted base: rustc front end (name resolution, typeck, MIR), syn for serde attributes, cargo '
                          'metadata; library semantics (tokio channels, serde, redb) assumed; rules fail closed on missing '
                          'anchors and on instance counts below the hand-confirmed floors',
            'technique': 'static analysis: ' + tech,
        })
    na = [{'property_id': p['id'], 'reason': 'check not implemented yet in this commit (work in progress, see DESIGN.md section 4)'}
          for p in props if p['id'] not in implemented]
    m = {
        'version': 1,
        'setup_cmd': './setup.sh',
        'hooks': {'guard': 'none', 'enable': 'no hooks: static analysis reads /repo as it is (no instrumentation in the repository)',
                  'baseline_off_cmd': 'cd /repo && cargo test --workspace --no-fail-fast --offline',
                  'source_commits': fixes, 'add_only': True},
        'engines': [
            {'name': 'wbfacts', 'path': 'tools/wbfacts', 'serves_properties': sorted(implemented),
             'kind_free_text': 'rustc_private driver run as RUSTC_WORKSPACE_WRAPPER under cargo +nightly check: dumps resolved, '
                               're-sugared HIR and pre-coroutine MIR summaries of every local body as JSON facts'},
            {'name': 'serdeshape', 'path': 'tools/serdeshape', 'serves_properties': [p for p in ('C09', 'C14') if p in implemented],
             'kind_free_text': 'syn-based extractor of #[serde(..)] attributes and type shapes'},
            {'name': 'wbcheck', 'path': 'wbcheck', 'serves_properties': sorted(implemented),
             'kind_free_text': 'Python rule engine over the facts: path-trace analysis, match/decision tables, provenance, '
                               'who-may-call, call graph with message hops, serde shape lint'},
        ],
        'checks': checks,
        'notes': 'All checks are static: nothing of /repo is executed. `fix:` commits in /repo are listed in hooks.source_commits '
                 '(they are unguarded repairs of genuine defects, not hooks). known_findings.json lists genuine defects that are '
                 'recorded rather than repaired.',
        'not_applicable': na,
    }
    with open(os.path.join(VERIF, 'MANIFEST.json'), 'w') as fh:
        json.dump(m, fh, indent=1)
    print('implemented:', sorted(implemented), 'fix commits:', fixes)


if __name__ == '__main__':
    main()
