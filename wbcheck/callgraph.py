"""Whole-program call graph over the fact files, with message hops, and the inventory of panic-capable sites."""
from .ir import callee, short, walk, ctor_name

PANIC_CALLS = ('unwrap', 'expect', 'unwrap_err', 'expect_err', 'unwrap_unchecked')


class CallGraph:
    def __init__(self, prog, crates):
        self.prog = prog
        self.crates = {c: prog.crate(c) for c in crates}
        self.fns = {}
        for cn, c in self.crates.items():
            for f in c.top_fns():
                self.fns[f'{cn}::{f.path}'] = (cn, f)
        self.edges = {}
        self.ctor_sites = {}
        for full, (cn, f) in self.fns.items():
            c = self.crates[cn]
            out = set()
            for nd, anc in c.walk_fn(f):
                if nd.get('k') == 'call':
                    t = self.resolve(cn, callee(nd))
                    if t:
                        out.add(t)
                    cnm = ctor_name(nd)
                    if cnm:
                        self.ctor_sites.setdefault(cnm.rsplit('::', 1)[0], set()).add(full)
                elif nd.get('k') == 'path' and nd.get('res') in ('Fn', 'AssocFn'):
                    # a function passed as a value (e.g. router handlers, map(KeySegment::from))
                    t = self.resolve(cn, nd.get('path') or '')
                    if t:
                        out.add(t)
            self.edges[full] = out

    def resolve(self, cn, name):
        if not name:
            return None
        if f'{cn}::{name}' in self.fns:
            return f'{cn}::{name}'
        if name in self.fns:
            return name
        return None

    def add_hop(self, enum_prefix, handlers):
        """whoever constructs a variant of `enum_prefix` reaches `handlers` (the code behind the channel)"""
        for src in self.ctor_sites.get(enum_prefix, ()):
            self.edges.setdefault(src, set()).update(h for h in handlers if h in self.fns)

    def reachable(self, entries, max_depth=None):
        seen = {}
        todo = [(e, 0, None) for e in entries if e in self.fns]
        while todo:
            n, d, parent = todo.pop()
            if n in seen:
                continue
            seen[n] = parent
            if max_depth is not None and d >= max_depth:
                continue
            for m in self.edges.get(n, ()):
                if m not in seen:
                    todo.append((m, d + 1, n))
        return seen

    def path_to(self, seen, n):
        out = []
        while n is not None:
            out.append(n.split('::', 1)[1] if '::' in n else n)
            n = seen.get(n)
        return list(reversed(out))


def macro_origin(x):
    """outermost user-visible macro of an expansion stack (innermost first), e.g. 'topic', 'json', 'select', 'debug_assert'"""
    if not x:
        return None
    names = [m.split('/', 1)[1] if '/' in m else m for m in x if m.startswith('Bang:')]
    return names[-1] if names else None


def panic_sites(crate, f):
    """(kind, detail, macro, line) for every panic-capable construct in f and its closures"""
    out = []
    bodies = [f] + crate.closures_of(f)
    for b in bodies:
        for nd, anc in walk(b.hir):
            k = nd.get('k')
            if k == 'call':
                c = callee(nd)
                sh = short(c)
                mac = macro_origin(nd.get('x'))
                if sh in PANIC_CALLS and ('Option' in c or 'Result' in c):
                    msg = ''
                    if sh.startswith('expect') and len(nd['args']) > 1 and nd['args'][1].get('k') == 'lit':
                        msg = str(nd['args'][1]['v'].get('v'))
                    recv = nd['args'][0] if nd['args'] else {}
                    what = short(callee(recv)) if recv.get('k') == 'call' else (recv.get('name') or recv.get('k') or '?')
                    if recv.get('k') == 'await' and recv['e'].get('k') == 'call':
                        what = short(callee(recv['e'])) + '.await'
                    out.append((sh, f'{what}:{msg}' if msg else str(what), mac, nd.get('ln')))
                elif c.startswith('core::panicking::') or c.startswith('std::rt::begin_panic') or c.startswith('std::rt::panic_'):
                    out.append(('panic', mac or sh, mac, nd.get('ln')))
            elif k == 'index':
                bt = str(nd.get('base_ty') or '').replace("&'{erased} ", '').replace('mut ', '')
                # slices / arrays show up as MIR BoundsCheck asserts; everything else goes through Index::index
                i = nd.get('i', {})
                idx = str(i['v'].get('v')) if i.get('k') == 'lit' else ('range' if i.get('k') == 'struct' else 'expr')
                if idx == 'range' or not (bt.startswith('[') or bt.startswith('&[')):
                    base_name = nd['e'].get('name') or (nd['e'].get('name') if nd['e'].get('k') == 'field' else nd['e'].get('k'))
                    out.append(('index', f'{base_name}[{idx}] on {bt.split("<")[0]}', macro_origin(nd.get('x')), nd.get('ln')))
        mir = b.mir or {}
        for bb in mir.get('blocks', []):
            t = bb['term']
            if t.get('t') == 'assert' and not bb.get('cleanup'):
                msg = t.get('msg', '')
                kind = msg.split('(')[0].split(' ')[0]
                mac = macro_origin(t.get('x'))
                out.append(('assert:' + kind, msg[:40] if kind != 'BoundsCheck' else 'BoundsCheck', mac, t.get('ln')))
    return out
