"""Path-trace engine (rule templates T2/T3) over the structured, resolved HIR.

A *path* is (exit, trace, val):
  exit  in {'fall','ret','try','break','continue'}      how the path leaves the evaluated expression
  trace tuple of event labels in evaluation order; an event that sits in a loop body carries a trailing '*'
  val   in {'ok','err','some','none','unk'}             constructor class of the value the path yields

Events come from the rule's `classify(node, ancestors) -> label | None`, called for every call / struct-literal /
assignment / await node *after* its operands.  If the scrutinee of a `match` / `if let` / `let else` / `?` is (modulo
`.await`, `?`, `&`, and transparent adaptors) a call labelled L, the arms get a pseudo event `L@Variant`
(`L@Ok`, `L@Err`, `L@Some`, `L@None`, ...) so that a rule can speak about "on the Some edge of that call".

Idioms understood (enumerated from this repository): early return, `?`, if/if-let/match/let-else, loops
(`for`, `while`, `while let`, `loop`), `async` blocks awaited in place (directly, through a local, or through
`Instrument::instrument(block, span)`  -> evaluated inline), closures handed to combinators (evaluated as
"optional": zero or one execution), closures handed to a spawn function (separate task: not part of the path unless
the rule asks for it with `task_label`).
"""
from .ir import OK_CTORS, ERR_CTORS, SOME_CTORS, NONE_CTORS, callee, short, walk

# adaptors (by method name) through which the fallibility / constructor class of argument 0 passes unchanged
TRANSPARENT = {'map_err', 'context', 'with_context', 'into_diagnostic', 'instrument', 'wrap_err', 'wrap_err_with',
               'ok_or', 'ok_or_else', 'map', 'inspect_err', 'inspect', 'in_current_span'}


def is_transparent(name):
    return short(name) in TRANSPARENT


SPAWNERS = ('spawn', 'spawn_blocking', 'spawn_local')


class TooComplex(Exception):
    pass


def peel(e):
    """the call at the core of an expression, looking through await / ? / & / transparent adaptors"""
    while isinstance(e, dict):
        k = e.get('k')
        if k in ('await', 'try', 'ref', 'unary', 'cast'):
            e = e.get('e')
        elif k == 'call' and is_transparent(callee(e)) and e['args']:
            e = e['args'][0]
        elif k == 'block' and not e['stmts'] and 'tail' in e:
            e = e['tail']
        else:
            break
    return e


def variant_tag(pat):
    """'Ok'/'Err'/'Some'/'None'/<Variant> if the pattern selects exactly one enum variant at top level, '_' for
    catch-alls, None otherwise"""
    from .ir import pat_variants
    vs = pat_variants(pat)
    if len(vs) == 1:
        v = next(iter(vs))
        if v == '_':
            return '_'
        if v.startswith('lit:'):
            return v
        return short(v)
    return None


class Tracer:
    def __init__(self, crate, classify, may_err=None, closure_mode=None, max_paths=4000, value_of_call=None,
                 cond_events=(), cond_alias=None, inline_local=True):
        self.crate = crate
        # inline_local: an unlabelled call of a function of this crate whose body contains labelled events is replaced by the
        # paths of that body (bounded depth) - statements moved into a private helper stay visible to the rule
        self.inline_local = inline_local
        self._has_ev = {}
        self._inl_depth = 0
        self.classify = classify
        self.may_err = may_err or (lambda e: True)
        self.closure_mode = closure_mode or self.default_closure_mode
        self.max_paths = max_paths
        self.value_of_call = value_of_call
        self.cond_events = set(cond_events)
        # cond_alias(node) -> label | None: names a condition operand by what it *is* (provenance) instead of by its identifier
        self.cond_alias = cond_alias
        self.keep_panics = False
        self.env = {}
        self.depth = 0

    # ----------------------------------------------------------------- helpers
    @staticmethod
    def default_closure_mode(call, clo):
        n = callee(call)
        if short(n) in SPAWNERS or '::spawn' in n:
            return 'skip'
        if clo.get('ckind', '').startswith('coroutine'):
            return 'skip'  # async block handed to something that is not an await: not on this path
        return 'optional'

    def seq(self, A, Bf):
        out = set()
        B = None
        for (ex, t, v) in A:
            if ex == 'fall':
                if B is None:
                    B = Bf()
                for (ex2, t2, v2) in B:
                    out.add((ex2, t + t2, v2))
            else:
                out.add((ex, t, v))
        if len(out) > self.max_paths:
            raise TooComplex(f'more than {self.max_paths} abstract paths')
        return out

    def exprs(self, es, then=None):
        if not es:
            return then() if then else {('fall', (), 'unk')}
        if len(es) == 1 and then is None:
            return self.expr(es[0])
        return self.seq(self.expr(es[0]), lambda: self.exprs(es[1:], then))

    def label(self, e, anc=()):
        return self.classify(e, anc)

    # ----------------------------------------------------------------- entry points
    def run_fn(self, f, seed_params=()):
        """paths of function f (async fn -> its coroutine body; #[instrument] wrappers inlined).
        seed_params: names of parameters whose tests (`if let Some(x) = p`, `match p`) shall produce edge events `p@Variant`"""
        body = self.crate.user_body(f)
        self.env = {}
        # parameters are addressed by their names on the reference tree (a rename is mapped back by position)
        from .prov import ref_params
        ref = ref_params().get(f'{self.crate.name}::{f.path}')
        cur = [x.get('name') if isinstance(x, dict) and x.get('k') == 'bind' else None for x in f.params]
        self.param_ref = {}
        if ref and len(ref) == len(cur):
            self.param_ref = {x['id']: r for x, r in zip(f.params, ref) if isinstance(x, dict) and x.get('k') == 'bind' and r}
        # async fn: the coroutine body re-binds every parameter (`let key = key;`, desugaring)
        hb = body.hir
        if self.param_ref and isinstance(hb, dict) and hb.get('k') == 'block':
            for st in hb.get('stmts', []):
                if st.get('k') == 'let' and st['pat'].get('k') == 'bind' and isinstance(st.get('init'), dict) and \
                        st['init'].get('k') == 'path' and st['init'].get('id') in self.param_ref and \
                        any('desugar' in m for m in (st.get('x') or [])):
                    self.param_ref[st['pat']['id']] = self.param_ref[st['init']['id']]
        for p in f.params:
            if isinstance(p, dict) and p.get('k') == 'bind':
                nm = self.param_ref.get(p['id'], p.get('name'))
                if nm in seed_params:
                    self.env[p['id']] = ('from', nm)
        paths = self.expr(body.hir)
        out = set()
        for (ex, t, v) in paths:
            if ex == 'fall':
                out.add(('ret', t, v))
            elif ex == 'try':
                out.add(('try', t, 'err'))
            elif ex == 'panic' and not self.keep_panics:
                continue   # assertion failures / unreachable!: not a way the function completes
            else:
                out.add((ex, t, v))
        return out

    def inline_closure(self, defpath):
        f = self.crate.closure(defpath)
        if f is None:
            return {('fall', (), 'unk')}
        if self.depth > 12:
            return {('fall', (), 'unk')}
        saved = self.env
        self.env = dict(saved)
        self.depth += 1
        try:
            paths = self.expr(f.hir)
        finally:
            self.depth -= 1
            self.env = saved
        out = set()
        for (ex, t, v) in paths:
            if ex in ('ret', 'fall'):
                out.add(('fall', t, v))
            elif ex == 'try':
                out.add(('fall', t, 'err'))
            elif ex == 'panic' and not self.keep_panics:
                continue
            else:
                out.add((ex, t, v))
        return out

    def async_block_of(self, e):
        if e is None:
            return None
        k = e.get('k')
        if k == 'closure' and e['ckind'].startswith('coroutine'):
            return e['def']
        if k == 'path' and e.get('res') == 'local':
            b = self.env.get(e.get('id'))
            if b and b[0] == 'closure':
                return b[1]
        if k == 'call' and short(callee(e)) in ('instrument', 'in_current_span') and e['args']:
            return self.async_block_of(e['args'][0])
        if k == 'block' and not e['stmts'] and 'tail' in e:
            return self.async_block_of(e['tail'])
        return None

    # ----------------------------------------------------------------- arms with edge events
    def source_label(self, e):
        """label (with projection) of the labelled call an expression's value comes from, or None"""
        core = peel(e)
        if not isinstance(core, dict):
            return None
        proj = ''
        while core.get('k') == 'field':
            proj = '.' + core['name'] + proj
            core = peel(core['e'])
        if core.get('k') == 'call':
            L = self.label(core)
            if L is not None:
                return L + proj
            sh = short(callee(core))
            if sh in ('clone', 'as_ref', 'as_mut', 'iter', 'into_iter', 'iter_mut', 'take', 'to_owned') and core['args']:
                inner = self.source_label(core['args'][0])
                return inner + proj if inner else None
            if self.inline_local and self._inl_depth < 3:
                # a private helper whose result IS the result of a labelled call (`fn helper(..) { labelled(..).await.map_err(..) }`)
                g = self._local_fn(callee(core))
                if g is not None and self._has_events(g, 0):
                    saved = self.env
                    self.env = {}
                    self._inl_depth += 1
                    try:
                        body = self.crate.user_body(g).hir
                        tail = body
                        while isinstance(tail, dict) and tail.get('k') == 'block' and 'tail' in tail:
                            tail = tail['tail']
                        inner = self.source_label(tail) if isinstance(tail, dict) else None
                    finally:
                        self.env = saved
                        self._inl_depth -= 1
                    return inner + proj if inner else None
            return None
        if core.get('k') == 'path' and core.get('res') == 'local':
            b = self.env.get(core.get('id'))
            if b and b[0] == 'from':
                return b[1] + proj
        return None

    def edge_event(self, scrut, tag):
        if tag is None or tag == '_':
            return ()
        L = self.source_label(scrut)
        if L is not None:
            return (f'{L}@{tag}',)
        return ()

    def tuple_edge_events(self, scrut, pat):
        """`match (f(), x, y) { (Some(_), ..) | (Some(_), ..) => .. }`: per tuple position whose element comes from a
        labelled call, the variant all alternatives of the arm agree on"""
        from .ir import pat_variants
        alts = pat['alts'] if pat.get('k') == 'por' else [pat]
        out = ()
        for i, el in enumerate(scrut['elems']):
            L = self.source_label(el)
            if L is None:
                continue
            tags = set()
            for alt in alts:
                if alt.get('k') != 'ptuple' or i >= len(alt['args']):
                    tags.add(None)
                    continue
                tags.add(variant_tag(alt['args'][i]))
            if len(tags) == 1:
                t = tags.pop()
                if t and t != '_':
                    out += (f'{L}@{t}',)
        return out

    def bind_from(self, pat, src, proj=''):
        """record that the ids bound by `pat` hold (a projection of) the result of the labelled call `src`"""
        if not isinstance(pat, dict) or src is None:
            return
        k = pat.get('k')
        if k == 'bind':
            self.env[pat['id']] = ('from', src + proj)
            if 'sub' in pat:
                self.bind_from(pat['sub'], src, proj)
        elif k == 'pctor':
            v = short(pat.get('ctor_of') or pat.get('path') or '?')
            for i, a in enumerate(pat['args']):
                self.bind_from(a, src, proj + (f'#{v}.{i}' if len(pat['args']) > 1 or v not in ('Some', 'Ok', 'Err') else f'#{v}'))
        elif k == 'ptuple':
            for i, a in enumerate(pat['args']):
                self.bind_from(a, src, proj + f'[{i}]')
        elif k == 'pstruct':
            for fl in pat['fields']:
                self.bind_from(fl['pat'], src, proj + '.' + fl['name'])
        elif k == 'por':
            for a in pat['alts']:
                self.bind_from(a, src, proj)
        elif k == 'pguard':
            self.bind_from(pat['pat'], src, proj)

    def starred(self, t):
        return tuple(x if x.endswith('*') else x + '*' for x in t)

    # ----------------------------------------------------------------- the evaluator
    def expr(self, e):
        if e is None:
            return {('fall', (), 'unk')}
        k = e.get('k')
        Z = ()
        if k == 'block':
            items = list(e['stmts'])
            if 'tail' in e:
                items.append(e['tail'])
            if not items:
                return {('fall', Z, 'unk')}
            return self.exprs(items)
        if k == 'let':
            init = e.get('init')
            r = self.expr(init) if init is not None else {('fall', Z, 'unk')}
            p = e['pat']
            if init is not None:
                self.bind_from(p, self.source_label(init))
            if p.get('k') == 'bind' and init is not None and self.env.get(p['id'], ('',))[0] != 'from':
                if init.get('k') == 'closure':
                    self.env[p['id']] = ('closure', init['def'])
                elif init.get('k') == 'call' and short(callee(init)) in ('instrument', 'in_current_span') and self.async_block_of(init):
                    self.env[p['id']] = ('closure', self.async_block_of(init))
                else:
                    vals = {v for (ex, t, v) in r if ex == 'fall'}
                    self.env[p['id']] = ('val', vals.pop() if len(vals) == 1 else 'unk')
            if 'else' in e:
                tag = variant_tag(p)
                ev_match = self.edge_event(init, tag)
                neg = {'Some': 'None', 'Ok': 'Err', 'None': 'Some', 'Err': 'Ok'}.get(tag)
                ev_else = self.edge_event(init, neg)
                matched = {(ex, t + ev_match if ex == 'fall' else t, v) for (ex, t, v) in r}
                els = self.seq({(ex, t + ev_else, v) for (ex, t, v) in r if ex == 'fall'}, lambda: self.expr(e['else']))
                r = matched | els
            return {(ex, t, 'unk' if ex == 'fall' else v) for (ex, t, v) in r}
        if k in ('nop', 'lit', 'constblock', 'asm', 'offsetof', 'err'):
            return {('fall', Z, 'unk')}
        if k == 'path':
            if e.get('res') == 'local':
                b = self.env.get(e.get('id'))
                if b and b[0] == 'val':
                    return {('fall', Z, b[1])}
            name = e.get('ctor_of') or e.get('path') or ''
            if name in NONE_CTORS or name.endswith('Option::None'):
                return {('fall', Z, 'none')}
            L = self.label(e)
            return {('fall', (L,) if L else Z, 'unk')}
        if k == 'closure':
            return {('fall', Z, 'unk')}
        if k == 'await':
            inner = e['e']
            tgt = self.async_block_of(inner)
            if tgt is not None:
                r = self.inline_closure(tgt)
            else:
                r = self.expr(inner)
            L = self.label(e)
            if L:
                r = {(ex, t + (L,) if ex == 'fall' else t, v) for (ex, t, v) in r}
            if self.value_of_call is not None and tgt is None:
                nv = self.value_of_call(e)
                if nv:
                    r = {(ex, t, nv if ex == 'fall' and v in ('unk', 'maybe') else v) for (ex, t, v) in r}
            return r
        if k == 'try':
            r = self.expr(e['e'])
            out = set()
            fallible = self.may_err(e['e'])
            okev = self.edge_event(e['e'], 'Ok')
            errev = self.edge_event(e['e'], 'Err')
            for (ex, t, v) in r:
                if ex == 'fall':
                    if v not in ('err', 'none'):
                        out.add(('fall', t + okev, 'unk'))
                    if v not in ('ok', 'some') and fallible:
                        out.add(('try', t + errev, 'err' if v != 'none' else 'none'))
                else:
                    out.add((ex, t, v))
            return out
        if k == 'return':
            r = self.expr(e.get('e'))
            return {('ret', t, v) if ex == 'fall' else (ex, t, v) for (ex, t, v) in r}
        if k == 'break':
            r = self.expr(e.get('e'))
            kind = 'break' if e.get('target') is None else f'break:{e["target"]}'
            return {(kind, t, v) if ex == 'fall' else (ex, t, v) for (ex, t, v) in r}
        if k == 'continue':
            return {('continue' if e.get('target') is None else f'continue:{e["target"]}', Z, 'unk')}
        if k == 'lblock':
            # `'l: { .. break 'l value .. }`
            r = self.expr(e['body'])
            mine = f'break:{e.get("hid")}'
            return {('fall', t, v) if ex == mine else (ex, t, v) for (ex, t, v) in r}
        if k == 'call':
            return self.call(e)
        if k == 'struct':
            L = self.label(e)
            return self.exprs([f['e'] for f in e['fields']] + ([e['base']] if 'base' in e else []),
                              lambda: {('fall', (L,) if L else Z, 'unk')})
        if k in ('tuple', 'array'):
            L = self.label(e) if k == 'tuple' else None
            return self.exprs(e['elems'], lambda: {('fall', (L,) if L else Z, 'unk')})
        if k in ('ref', 'unary', 'cast', 'field', 'yield', 'repeat', 'become'):
            r = self.expr(e.get('e'))
            keep = k in ('ref',)
            return {(ex, t, v if (keep or ex != 'fall') else 'unk') for (ex, t, v) in r}
        if k in ('assign', 'assignop'):
            L = self.label(e)
            return self.exprs([e['r'], e['l']], lambda: {('fall', (L,) if L else Z, 'unk')})
        if k == 'binary':
            if e.get('op') in ('And', 'Or'):
                # short circuit: right operand is optional
                return self.seq(self.expr(e['l']), lambda: {('fall', Z, 'unk')} | self.expr(e['r']))
            return self.exprs([e['l'], e['r']], lambda: {('fall', Z, 'unk')})
        if k == 'index':
            L = self.label(e)
            return self.exprs([e['e'], e['i']], lambda: {('fall', (L,) if L else Z, 'unk')})
        if k == 'letcond':
            return self.expr(e['init'])
        if k == 'if':
            return self.if_(e)
        if k == 'match':
            return self.match(e)
        if k in ('loop', 'for'):
            return self.loop(e)
        if k == 'for_raw':
            return self.exprs([e['scrut']] + [a['body'] for a in e['arms']], lambda: {('fall', Z, 'unk')})
        kids = [v for v in e.values() if isinstance(v, dict) and 'k' in v]
        return self.exprs(kids, lambda: {('fall', Z, 'unk')})

    def call(self, e):
        name = callee(e)
        args = e['args']
        L = self.label(e)
        ev = (L,) if L else ()
        if name.startswith(('core::panicking::', 'std::rt::begin_panic', 'std::rt::panic_', 'std::process::exit', 'std::process::abort')):
            # a diverging call: the path ends here (exit kind 'panic'), it is neither an Ok nor an Err exit
            return {('panic', ev, 'unk')}

        def after():
            if name in OK_CTORS or name.endswith('Result::Ok'):
                return {('fall', ev, 'ok')}
            if name in ERR_CTORS or name.endswith('Result::Err'):
                return {('fall', ev, 'err')}
            if name in SOME_CTORS or name.endswith('Option::Some'):
                return {('fall', ev, 'some')}
            v = 'unk'
            if self.value_of_call is not None:
                v = self.value_of_call(e) or 'unk'
            return {('fall', ev, v)}

        # evaluate arguments; closures among them according to closure_mode
        arg_items = []
        for a in args:
            if isinstance(a, dict) and a.get('k') == 'closure':
                mode = self.closure_mode(e, a)
                if mode == 'inline':
                    arg_items.append(('clo', a['def'], False))
                elif mode == 'optional':
                    arg_items.append(('clo', a['def'], True))
                elif isinstance(mode, tuple) and mode[0] == 'task':
                    arg_items.append(('task', a['def'], mode[1]))
                # 'skip': nothing
            else:
                arg_items.append(('e', a, None))

        def eval_items(items):
            if not items:
                return after()
            kind, x, opt = items[0]
            if kind == 'e':
                first = self.expr(x)
            elif kind == 'clo':
                first = self.inline_closure(x)
                # a combinator closure's `return`/value does not leave the caller
                first = {('fall', t, 'unk') for (ex, t, v) in first}
                if opt:
                    first = first | {('fall', (), 'unk')}
            else:  # task: events of the spawned task are reported under a prefix, all-or-nothing
                inner = self.inline_closure(x)
                first = {('fall', tuple(f'{opt}:{y}' for y in t), 'unk') for (ex, t, v) in inner}
            return self.seq(first, lambda: eval_items(items[1:]))

        r = eval_items(arg_items)
        if not L and self._inl_depth < 3:
            g = self._local_fn(name)
            from .ir import ref_fns
            known = ref_fns().get(self.crate.name)
            is_new = g is not None and known is not None and name not in known and g.kind != 'Closure'
            # helpers that did not exist on the reference tree are always transparent; older functions only when the rule allows it
            if g is not None and (is_new or self.inline_local) and self._has_events(g, 0):
                inner = self._inline_fn(g)
                # replace the opaque result of the call by the callee's own paths (its events, its Ok / Err value)
                r = self.seq({(ex, t, 'unk') if ex == 'fall' else (ex, t, v) for (ex, t, v) in r}, lambda: inner)
                return r
        if is_transparent(name) and args:
            a0 = self.expr(args[0])
            vals = {v for (ex, t, v) in a0 if ex == 'fall'}
            if len(vals) == 1:
                v0 = vals.pop()
                r = {(ex, t, v0 if ex == 'fall' else v) for (ex, t, v) in r}
        return r

    def _local_fn(self, name):
        f = getattr(self.crate, 'fns', {}).get(name)
        if f is None or getattr(f, 'hir', None) is None:
            return None
        return f

    def _has_events(self, f, depth):
        key = f.path
        if key in self._has_ev:
            return self._has_ev[key]
        self._has_ev[key] = False       # recursion guard
        found = False
        bodies = [f] + self.crate.closures_of(f)
        for b_ in bodies:
            for nd, anc in walk(b_.hir):
                if nd.get('k') in ('call', 'assign', 'assignop', 'struct'):
                    try:
                        if self.classify(nd, anc):
                            found = True
                            break
                    except Exception:
                        pass
                    if nd.get('k') == 'call' and depth < 2:
                        g = self._local_fn(callee(nd))
                        if g is not None and g is not f and self._has_events(g, depth + 1):
                            found = True
                            break
            if found:
                break
        self._has_ev[key] = found
        return found

    def _inline_fn(self, f):
        saved_env, saved_ref = self.env, getattr(self, 'param_ref', {})
        self._inl_depth += 1
        try:
            body = self.crate.user_body(f)
            self.env = {}
            paths = self.expr(body.hir)
        finally:
            self.env = saved_env
            self.param_ref = saved_ref
            self._inl_depth -= 1
        out = set()
        for (ex, t, v) in paths:
            if ex in ('fall', 'ret'):
                out.add(('fall', t, v))
            elif ex == 'try':
                out.add(('fall', t, 'err'))
            elif ex == 'panic':
                out.add((ex, t, v))
            # break / continue cannot leave a function
        return out or {('fall', (), 'unk')}

    def cond_eval(self, c):
        """(paths on which the condition holds, paths on which it does not) - handles `let` conditions, `&&` / `||`
        chains (edition-2024 let chains) and `!`"""
        k = c.get('k') if isinstance(c, dict) else None
        if k == 'letcond':
            tag = variant_tag(c['pat'])
            neg = {'Some': 'None', 'Ok': 'Err', 'None': 'Some', 'Err': 'Ok'}.get(tag)
            src = self.source_label(c['init'])
            if src is not None:
                self.bind_from(c['pat'], src)
            r = self.expr(c['init'])
            tev, eev = self.edge_event(c['init'], tag), self.edge_event(c['init'], neg)
            th = {(ex, t + tev if ex == 'fall' else t, v) for (ex, t, v) in r}
            el = {(ex, t + eev if ex == 'fall' else t, v) for (ex, t, v) in r}
            return th, el
        if k == 'binary' and c.get('op') == 'And':
            lt, le = self.cond_eval(c['l'])
            cache = {}

            def right(i):
                if 'r' not in cache:
                    cache['r'] = self.cond_eval(c['r'])
                return cache['r'][i]
            return self.seq(lt, lambda: right(0)), le | self.seq(lt, lambda: right(1))
        if k == 'binary' and c.get('op') == 'Or':
            lt, le = self.cond_eval(c['l'])
            cache = {}

            def right(i):
                if 'r' not in cache:
                    cache['r'] = self.cond_eval(c['r'])
                return cache['r'][i]
            return lt | self.seq(le, lambda: right(0)), self.seq(le, lambda: right(1))
        if k == 'unary' and c.get('op') == 'Not':
            th, el = self.cond_eval(c['e'])
            return el, th
        if k == 'block' and not c['stmts'] and 'tail' in c:
            return self.cond_eval(c['tail'])
        r = self.expr(c)
        if self.cond_alias and isinstance(c, dict) and c.get('k') in ('binary', 'call'):
            # a whole condition (a comparison, a predicate call) named by what it tests: alias -> label | (label, negated)
            a = self.cond_alias(c)
            if a:
                n, neg = (a, False) if isinstance(a, str) else a
                th = {(ex, t + (f'?{n}={int(not neg)}',) if ex == 'fall' else t, v) for (ex, t, v) in r}
                el = {(ex, t + (f'?{n}={int(neg)}',) if ex == 'fall' else t, v) for (ex, t, v) in r}
                return th, el
        if (self.cond_events or self.cond_alias) and isinstance(c, dict) and c.get('k') == 'call' and \
                short(callee(c)) in ('is_some', 'is_none', 'is_ok', 'is_err') and c['args'] and c['args'][0].get('k') == 'path':
            n = self._cond_name(c['args'][0])
            if n:
                pos = short(callee(c)) in ('is_some', 'is_ok')
                th = {(ex, t + (f'?{n}={int(pos)}',) if ex == 'fall' else t, v) for (ex, t, v) in r}
                el = {(ex, t + (f'?{n}={int(not pos)}',) if ex == 'fall' else t, v) for (ex, t, v) in r}
                return th, el
        if self.cond_events or self.cond_alias:
            inner = c
            if isinstance(inner, dict) and (inner.get('k') == 'path' and inner.get('res') == 'local' or inner.get('k') == 'field'):
                n = self._cond_name(inner)
                if n:
                    th = {(ex, t + (f'?{n}=1',) if ex == 'fall' else t, v) for (ex, t, v) in r}
                    el = {(ex, t + (f'?{n}=0',) if ex == 'fall' else t, v) for (ex, t, v) in r}
                    return th, el
        return r, r

    def _cond_name(self, nd):
        if self.cond_alias:
            a = self.cond_alias(nd)
            if a:
                return a
        nm = nd.get('name')
        if nd.get('k') == 'path':
            nm = getattr(self, 'param_ref', {}).get(nd.get('id'), nm)
        return nm if nm in self.cond_events else None

    def if_(self, e):
        th, el = self.cond_eval(e['cond'])
        out = self.seq(th, lambda: self.expr(e['then']))
        if 'else' in e:
            out = out | self.seq(el, lambda: self.expr(e['else']))
        else:
            out = out | {(ex, t, 'unk' if ex == 'fall' else v) for (ex, t, v) in el}
        if len(out) > self.max_paths:
            raise TooComplex(f'more than {self.max_paths} abstract paths')
        return out

    def match(self, e):
        scrut = e['scrut']
        # value-class refinement: a scrutinee known to be ok/err/some/none takes only the matching arms
        sp = self.expr(scrut)
        src_label = self.source_label(scrut)

        def arms_for(val):
            out = set()
            for a in e['arms']:
                tag = variant_tag(a['pat'])
                if val == 'ok' and tag == 'Err' or val == 'err' and tag == 'Ok' or \
                        val == 'some' and tag == 'None' or val == 'none' and tag == 'Some':
                    continue
                ev = self.edge_event(scrut, tag)
                if scrut.get('k') == 'tuple':
                    ev = self.tuple_edge_events(scrut, a['pat'])
                self.bind_from(a['pat'], src_label)
                if 'guard' in a:
                    body = self.seq(self.expr(a['guard']), lambda a=a: self.expr(a['body']))
                else:
                    body = self.expr(a['body'])
                out |= {(ex, ev + t, v) for (ex, t, v) in body}
            return out
        out = set()
        cache = {}
        for (ex, t, v) in sp:
            if ex != 'fall':
                out.add((ex, t, v))
                continue
            if v not in cache:
                cache[v] = arms_for(v)
            for (ex2, t2, v2) in cache[v]:
                out.add((ex2, t + t2, v2))
        if len(out) > self.max_paths:
            raise TooComplex(f'more than {self.max_paths} abstract paths')
        return out

    def loop(self, e):
        k = e['k']
        head = self.expr(e['iter']) if k == 'for' else {('fall', (), 'unk')}
        if k == 'for' and e.get('pat') is not None and e.get('iter') is not None:
            src = self.source_label(e['iter'])
            if src is not None:
                self.bind_from(e['pat'], src + '[*]')

        hid = e.get('hid')

        def is_break(ex):
            return ex == 'break' or (hid is not None and ex == f'break:{hid}')

        def is_continue(ex):
            return ex == 'continue' or (hid is not None and ex == f'continue:{hid}')

        def body():
            b = self.expr(e['body'])
            b = {('break' if is_break(ex) else ('continue' if is_continue(ex) else ex), t, v) for (ex, t, v) in b}
            cont = {self.starred(t) for (ex, t, v) in b if ex in ('fall', 'continue')}
            out = set()
            if k == 'for':
                out.add(('fall', (), 'unk'))
                for t in cont:
                    out.add(('fall', t, 'unk'))
            for (ex, t, v) in b:
                if ex == 'break':
                    out.add(('fall', self.starred(t), v))
                    for c in cont:
                        if c:
                            out.add(('fall', c + self.starred(t), v))
                elif ex in ('ret', 'try', 'panic') or ex.startswith('break:') or ex.startswith('continue:'):
                    out.add((ex, self.starred(t), v))
                    for c in cont:
                        if c:
                            out.add((ex, c + self.starred(t), v))
            if len(out) > self.max_paths:
                raise TooComplex(f'more than {self.max_paths} abstract paths')
            return out
        return self.seq(head, body)


# ---------------------------------------------------------------------- trace predicates
def base(ev):
    return ev[:-1] if ev.endswith('*') else ev


def count(trace, label):
    """number of occurrences; an event in a loop counts as 2 (= many)"""
    n = 0
    for ev in trace:
        if base(ev) == label:
            n += 2 if ev.endswith('*') else 1
    return min(n, 2)


def index_of(trace, label, start=0):
    for i in range(start, len(trace)):
        if base(trace[i]) == label:
            return i
    return -1


def ok_exits(paths):
    return [(ex, t, v) for (ex, t, v) in paths if ex == 'ret' and v != 'err']


def err_exits(paths):
    return [(ex, t, v) for (ex, t, v) in paths if ex == 'try' or (ex == 'ret' and v == 'err')]
