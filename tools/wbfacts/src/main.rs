#![feature(rustc_private)]
#![allow(deprecated)]
// wbfacts: rustc_private driver that dumps a structured, resolved IR of every local body
// (HIR re-sugared + MIR summary) as JSON. Prototype for /verif/tools/wbfacts.
extern crate rustc_ast;
extern crate rustc_driver;
extern crate rustc_hir;
extern crate rustc_interface;
extern crate rustc_middle;
extern crate rustc_span;

use rustc_driver::{run_compiler, Callbacks, Compilation};
use rustc_hir as hir;
use rustc_hir::def::{DefKind, Res};
use rustc_hir::def_id::{DefId, LocalDefId, LOCAL_CRATE};
use rustc_interface::interface::Compiler;
use rustc_middle::mir;
use rustc_middle::ty::{self, TyCtxt, TypeckResults};
use rustc_span::{ExpnKind, Span};
use std::fmt::Write as _;

// ---------------------------------------------------------------- tiny JSON
#[derive(Clone)]
enum J {
    Null,
    Bool(bool),
    Num(i128),
    Str(String),
    Arr(Vec<J>),
    Obj(Vec<(&'static str, J)>),
}
fn esc(s: &str, out: &mut String) {
    out.push('"');
    for c in s.chars() {
        match c {
            '"' => out.push_str("\\\""),
            '\\' => out.push_str("\\\\"),
            '\n' => out.push_str("\\n"),
            '\r' => out.push_str("\\r"),
            '\t' => out.push_str("\\t"),
            c if (c as u32) < 0x20 => {
                let _ = write!(out, "\\u{:04x}", c as u32);
            }
            c => out.push(c),
        }
    }
    out.push('"');
}
impl J {
    fn write(&self, out: &mut String) {
        match self {
            J::Null => out.push_str("null"),
            J::Bool(b) => out.push_str(if *b { "true" } else { "false" }),
            J::Num(n) => {
                let _ = write!(out, "{}", n);
            }
            J::Str(s) => esc(s, out),
            J::Arr(v) => {
                out.push('[');
                for (i, x) in v.iter().enumerate() {
                    if i > 0 {
                        out.push(',');
                    }
                    x.write(out);
                }
                out.push(']');
            }
            J::Obj(v) => {
                out.push('{');
                for (i, (k, x)) in v.iter().enumerate() {
                    if i > 0 {
                        out.push(',');
                    }
                    esc(k, out);
                    out.push(':');
                    x.write(out);
                }
                out.push('}');
            }
        }
    }
}
fn s(x: impl Into<String>) -> J {
    J::Str(x.into())
}
fn obj(k: &'static str, mut f: Vec<(&'static str, J)>) -> Vec<(&'static str, J)> {
    let mut v = vec![("k", s(k))];
    v.append(&mut f);
    v
}

// ---------------------------------------------------------------- HIR lowering
struct Cx<'tcx> {
    tcx: TyCtxt<'tcx>,
    typeck: &'tcx TypeckResults<'tcx>,
    owner: LocalDefId,
}

fn line_of(tcx: TyCtxt<'_>, sp: Span) -> i128 {
    let sp = sp.source_callsite();
    tcx.sess.source_map().lookup_char_pos(sp.lo()).line as i128
}
fn file_of(tcx: TyCtxt<'_>, sp: Span) -> String {
    let sp = sp.source_callsite();
    let f = tcx.sess.source_map().lookup_char_pos(sp.lo()).file;
    format!("{}", f.name.prefer_local_unconditionally())
}

/// macro stack (innermost first) of a span, as "kind:name"
fn macro_stack_tcx(tcx: TyCtxt<'_>, sp: Span) -> Vec<String> {
    let mut out = vec![];
    let mut sp = sp;
    let mut guard = 0;
    while sp.from_expansion() && guard < 16 {
        let d = sp.ctxt().outer_expn_data();
        match d.kind {
            ExpnKind::Macro(kind, name) => {
                let krate = d.macro_def_id.map(|id| tcx.crate_name(id.krate).to_string()).unwrap_or_default();
                let short = name.as_str().rsplit("::").next().unwrap_or("").to_string();
                out.push(format!("{:?}:{}/{}", kind, krate, short))
            }
            ExpnKind::Desugaring(k) => out.push(format!("desugar:{:?}", k)),
            ExpnKind::AstPass(k) => out.push(format!("astpass:{:?}", k)),
            ExpnKind::Root => break,
        }
        sp = d.call_site;
        guard += 1;
    }
    out
}
#[allow(dead_code)]
fn macro_stack(sp: Span) -> Vec<String> {
    let mut out = vec![];
    let mut sp = sp;
    let mut guard = 0;
    while sp.from_expansion() && guard < 16 {
        let d = sp.ctxt().outer_expn_data();
        match d.kind {
            ExpnKind::Macro(kind, name) => out.push(format!("{:?}:{}", kind, name)),
            ExpnKind::Desugaring(k) => out.push(format!("desugar:{:?}", k)),
            ExpnKind::AstPass(k) => out.push(format!("astpass:{:?}", k)),
            ExpnKind::Root => break,
        }
        sp = d.call_site;
        guard += 1;
    }
    out
}
fn is_tracing_event(stack: &[String]) -> bool {
    stack.iter().any(|m| m.starts_with("Bang:tracing/") || m.starts_with("Bang:tracing_core/") || m.starts_with("Bang:log/"))
}

impl<'tcx> Cx<'tcx> {
    fn defpath(&self, did: DefId) -> String {
        self.tcx.def_path_str(did)
    }
    fn res(&self, res: Res) -> Vec<(&'static str, J)> {
        match res {
            Res::Local(hid) => vec![("res", s("local")), ("name", s(self.tcx.hir_name(hid).to_string())), ("id", J::Num(hid.local_id.as_u32() as i128))],
            Res::Def(kind, did) => {
                let mut v = vec![("res", s(format!("{:?}", kind))), ("path", s(self.defpath(did)))];
                if let DefKind::Ctor(..) = kind {
                    // parent of ctor is the variant (or struct)
                    let p = self.tcx.parent(did);
                    v.push(("ctor_of", s(self.defpath(p))));
                }
                v
            }
            Res::SelfCtor(did) => vec![("res", s("SelfCtor")), ("path", s(self.defpath(did)))],
            Res::SelfTyAlias { alias_to, .. } => vec![("res", s("SelfTy")), ("path", s(self.defpath(alias_to)))],
            other => vec![("res", s(format!("{:?}", other)))],
        }
    }
    fn qpath(&self, qp: &hir::QPath<'tcx>, hid: hir::HirId) -> Vec<(&'static str, J)> {
        self.res(self.typeck.qpath_res(qp, hid))
    }
    fn ann(&self, e_span: Span, v: &mut Vec<(&'static str, J)>) {
        v.push(("ln", J::Num(line_of(self.tcx, e_span))));
        if e_span.from_expansion() {
            let st = macro_stack_tcx(self.tcx, e_span);
            v.push(("x", J::Arr(st.into_iter().map(J::Str).collect())));
        }
    }
    fn ty_str(&self, e: &hir::Expr<'tcx>) -> J {
        match self.typeck.expr_ty_opt(e) {
            Some(t) => s(format!("{:?}", t)),
            None => J::Null,
        }
    }
    /// resolve a trait method call to the impl method if possible
    fn resolve_impl(&self, did: DefId, hid: hir::HirId) -> Option<String> {
        let args = self.typeck.node_args_opt(hid)?;
        if self.tcx.trait_of_assoc(did).is_none() {
            return None;
        }
        let env = ty::TypingEnv::post_analysis(self.tcx, self.owner.to_def_id());
        // generic args may still mention params of the enclosing fn; try_resolve tolerates that
        match ty::Instance::try_resolve(self.tcx, env, did, args) {
            Ok(Some(inst)) => {
                let d = inst.def_id();
                if d != did {
                    Some(self.defpath(d))
                } else {
                    None
                }
            }
            _ => None,
        }
    }

    fn block(&self, b: &hir::Block<'tcx>) -> J {
        let mut stmts = vec![];
        for st in b.stmts {
            match st.kind {
                hir::StmtKind::Let(l) => {
                    let mut v = obj("let", vec![("pat", self.pat(l.pat))]);
                    if let Some(i) = l.init {
                        v.push(("init", self.expr(i)));
                    }
                    if let Some(els) = l.els {
                        v.push(("else", self.block(els)));
                    }
                    self.ann(l.span, &mut v);
                    stmts.push(J::Obj(v));
                }
                hir::StmtKind::Item(_) => {}
                hir::StmtKind::Expr(e) | hir::StmtKind::Semi(e) => stmts.push(self.expr(e)),
            }
        }
        let mut v = obj("block", vec![("stmts", J::Arr(stmts))]);
        if let Some(e) = b.expr {
            v.push(("tail", self.expr(e)));
        }
        J::Obj(v)
    }

    fn pat(&self, p: &hir::Pat<'tcx>) -> J {
        use hir::PatKind as P;
        let v = match p.kind {
            P::Wild | P::Missing => obj("wild", vec![]),
            P::Never => obj("never", vec![]),
            P::Binding(_, hid, ident, sub) => {
                let mut v = obj("bind", vec![("name", s(ident.to_string())), ("id", J::Num(hid.local_id.as_u32() as i128))]);
                if let Some(sp) = sub {
                    v.push(("sub", self.pat(sp)));
                }
                v
            }
            P::Struct(ref qp, fields, _) => {
                let mut v = obj("pstruct", self.qpath(qp, p.hir_id));
                v.push((
                    "fields",
                    J::Arr(fields.iter().map(|f| J::Obj(vec![("name", s(f.ident.to_string())), ("pat", self.pat(f.pat))])).collect()),
                ));
                v
            }
            P::TupleStruct(ref qp, pats, ddpos) => {
                let mut v = obj("pctor", self.qpath(qp, p.hir_id));
                v.push(("args", J::Arr(pats.iter().map(|x| self.pat(x)).collect())));
                if let Some(n) = ddpos.as_opt_usize() {
                    v.push(("dotdot", J::Num(n as i128)));
                }
                v
            }
            P::Or(pats) => obj("por", vec![("alts", J::Arr(pats.iter().map(|x| self.pat(x)).collect()))]),
            P::Tuple(pats, ddpos) => {
                let mut v = obj("ptuple", vec![("args", J::Arr(pats.iter().map(|x| self.pat(x)).collect()))]);
                if let Some(n) = ddpos.as_opt_usize() {
                    v.push(("dotdot", J::Num(n as i128)));
                }
                v
            }
            P::Box(x) | P::Deref(x) | P::Ref(x, _, _) => return self.pat(x),
            P::Expr(pe) => match pe.kind {
                hir::PatExprKind::Lit { lit, negated } => obj("plit", vec![("v", self.lit(&lit)), ("neg", J::Bool(negated))]),
                hir::PatExprKind::Path(ref qp) => obj("ppath", self.qpath(qp, pe.hir_id)),
            },
            P::Guard(x, g) => obj("pguard", vec![("pat", self.pat(x)), ("guard", self.expr(g))]),
            P::Range(..) => obj("prange", vec![]),
            P::Slice(a, m, b) => obj(
                "pslice",
                vec![
                    ("before", J::Arr(a.iter().map(|x| self.pat(x)).collect())),
                    ("mid", m.map(|x| self.pat(x)).unwrap_or(J::Null)),
                    ("after", J::Arr(b.iter().map(|x| self.pat(x)).collect())),
                ],
            ),
            P::Err(_) => obj("perr", vec![]),
        };
        J::Obj(v)
    }

    fn lit(&self, l: &hir::Lit) -> J {
        use rustc_ast::LitKind as L;
        match &l.node {
            L::Str(sym, _) => J::Obj(vec![("t", s("str")), ("v", s(sym.to_string()))]),
            L::Int(n, _) => J::Obj(vec![("t", s("int")), ("v", J::Num(n.get() as i128))]),
            L::Bool(b) => J::Obj(vec![("t", s("bool")), ("v", J::Bool(*b))]),
            L::Char(c) => J::Obj(vec![("t", s("char")), ("v", s(c.to_string()))]),
            L::ByteStr(bytes, _) => {
                // format_args! templates are lowered to byte strings: keep the printable text
                let b = bytes.as_byte_str();
                J::Obj(vec![("t", s("bytestr")), ("v", s(String::from_utf8_lossy(b).to_string()))])
            }
            other => J::Obj(vec![("t", s("other")), ("v", s(format!("{:?}", other)))]),
        }
    }

    fn callee_of_call(&self, f: &hir::Expr<'tcx>) -> Option<(Res, hir::HirId)> {
        if let hir::ExprKind::Path(ref qp) = f.kind {
            Some((self.typeck.qpath_res(qp, f.hir_id), f.hir_id))
        } else {
            None
        }
    }
    fn is_call_to(&self, e: &hir::Expr<'tcx>, suffix: &str) -> Option<&'tcx [hir::Expr<'tcx>]> {
        if let hir::ExprKind::Call(f, args) = e.kind {
            if let Some((Res::Def(_, did), _)) = self.callee_of_call(f) {
                if self.defpath(did).ends_with(suffix) {
                    return Some(args);
                }
            }
        }
        None
    }

    fn expr(&self, e: &hir::Expr<'tcx>) -> J {
        use hir::ExprKind as E;
        // prune tracing event macros entirely
        if e.span.from_expansion() {
            let st = macro_stack_tcx(self.tcx, e.span);
            if is_tracing_event(&st) {
                return J::Obj(vec![("k", s("nop")), ("why", s("tracing"))]);
            }
        }
        let mut v: Vec<(&'static str, J)> = match e.kind {
            E::DropTemps(x) | E::Use(x, _) | E::Type(x, _) => return self.expr(x),
            E::Cast(x, _) => obj("cast", vec![("e", self.expr(x)), ("ty", self.ty_str(e))]),
            E::AddrOf(_, _, x) => obj("ref", vec![("e", self.expr(x))]),
            E::Unary(op, x) => obj("unary", vec![("op", s(format!("{:?}", op))), ("e", self.expr(x))]),
            E::Binary(op, a, b) => obj("binary", vec![("op", s(format!("{:?}", op.node))), ("l", self.expr(a)), ("r", self.expr(b))]),
            E::Lit(l) => obj("lit", vec![("v", self.lit(&l))]),
            E::Array(xs) => obj("array", vec![("elems", J::Arr(xs.iter().map(|x| self.expr(x)).collect()))]),
            E::Tup(xs) => obj("tuple", vec![("elems", J::Arr(xs.iter().map(|x| self.expr(x)).collect()))]),
            E::Repeat(x, _) => obj("repeat", vec![("e", self.expr(x))]),
            E::Path(ref qp) => obj("path", self.qpath(qp, e.hir_id)),
            E::Field(x, id) => obj("field", vec![("e", self.expr(x)), ("name", s(id.to_string())), ("base_ty", self.ty_str(x))]),
            E::Index(a, b, _) => obj("index", vec![("e", self.expr(a)), ("i", self.expr(b)), ("base_ty", self.ty_str(a))]),
            E::Assign(a, b, _) => obj("assign", vec![("l", self.expr(a)), ("r", self.expr(b))]),
            E::AssignOp(op, a, b) => obj("assignop", vec![("op", s(format!("{:?}", op.node))), ("l", self.expr(a)), ("r", self.expr(b))]),
            E::Block(b, None) => return self.block(b),
            E::Block(b, Some(_)) => obj("lblock", vec![("hid", J::Num(b.hir_id.local_id.as_u32() as i128)), ("body", self.block(b))]),
            E::If(c, t, el) => {
                let mut v = obj("if", vec![("cond", self.expr(c)), ("then", self.expr(t))]);
                if let Some(x) = el {
                    v.push(("else", self.expr(x)));
                }
                v
            }
            E::Let(l) => obj("letcond", vec![("pat", self.pat(l.pat)), ("init", self.expr(l.init))]),
            E::Ret(x) => obj("return", vec![("e", x.map(|x| self.expr(x)).unwrap_or(J::Null))]),
            E::Break(dest, x) => obj(
                "break",
                vec![
                    ("e", x.map(|x| self.expr(x)).unwrap_or(J::Null)),
                    ("target", dest.target_id.ok().map(|h| J::Num(h.local_id.as_u32() as i128)).unwrap_or(J::Null)),
                ],
            ),
            E::Continue(dest) => obj("continue", vec![("target", dest.target_id.ok().map(|h| J::Num(h.local_id.as_u32() as i128)).unwrap_or(J::Null))]),
            E::Become(x) => obj("become", vec![("e", self.expr(x))]),
            E::Yield(x, _) => obj("yield", vec![("e", self.expr(x))]),
            E::Closure(c) => {
                let kind = match c.kind {
                    hir::ClosureKind::Closure => "closure".to_string(),
                    hir::ClosureKind::Coroutine(k) => format!("coroutine:{:?}", k),
                    hir::ClosureKind::CoroutineClosure(k) => format!("coroutine_closure:{:?}", k),
                };
                obj("closure", vec![("def", s(self.defpath(c.def_id.to_def_id()))), ("ckind", s(kind))])
            }
            E::Struct(qp, fields, tail) => {
                let mut v = obj("struct", self.qpath(qp, e.hir_id));
                v.push((
                    "fields",
                    J::Arr(fields.iter().map(|f| J::Obj(vec![("name", s(f.ident.to_string())), ("e", self.expr(f.expr))])).collect()),
                ));
                if let hir::StructTailExpr::Base(b) = tail {
                    v.push(("base", self.expr(b)));
                }
                v.push(("ty", self.ty_str(e)));
                v
            }
            E::Call(f, args) => {
                let mut v = obj("call", vec![]);
                match self.callee_of_call(f) {
                    Some((res, hid)) => {
                        v.append(&mut self.res(res));
                        if let Res::Def(DefKind::AssocFn, did) = res {
                            if let Some(i) = self.resolve_impl(did, hid) {
                                v.push(("impl", s(i)));
                            }
                        }
                    }
                    None => v.push(("fexpr", self.expr(f))),
                }
                v.push(("args", J::Arr(args.iter().map(|x| self.expr(x)).collect())));
                v.push(("ty", self.ty_str(e)));
                v
            }
            E::MethodCall(seg, recv, args, _) => {
                let mut v = obj("call", vec![("method", s(seg.ident.to_string()))]);
                if let Some(did) = self.typeck.type_dependent_def_id(e.hir_id) {
                    v.push(("res", s("AssocFn")));
                    v.push(("path", s(self.defpath(did))));
                    if let Some(i) = self.resolve_impl(did, e.hir_id) {
                        v.push(("impl", s(i)));
                    }
                }
                let mut a = vec![self.expr(recv)];
                a.extend(args.iter().map(|x| self.expr(x)));
                v.push(("args", J::Arr(a)));
                v.push(("recv_ty", self.ty_str(recv)));
                v.push(("ty", self.ty_str(e)));
                v
            }
            E::Loop(b, _, src, _) => obj("loop", vec![("src", s(format!("{:?}", src))), ("hid", J::Num(e.hir_id.local_id.as_u32() as i128)), ("body", self.block(b))]),
            E::Match(scrut, arms, src) => match src {
                hir::MatchSource::AwaitDesugar => {
                    // match IntoFuture::into_future(inner) { mut pinned => loop {..} }
                    let inner = self.is_call_to(scrut, "IntoFuture::into_future").and_then(|a| a.first());
                    match inner {
                        Some(x) => obj("await", vec![("e", self.expr(x)), ("ty", self.ty_str(e))]),
                        None => obj("await", vec![("e", self.expr(scrut)), ("ty", self.ty_str(e))]),
                    }
                }
                hir::MatchSource::TryDesugar(_) => {
                    let inner = self.is_call_to(scrut, "Try::branch").and_then(|a| a.first());
                    match inner {
                        Some(x) => obj("try", vec![("e", self.expr(x)), ("operand_ty", self.ty_str(x))]),
                        None => obj("try", vec![("e", self.expr(scrut))]),
                    }
                }
                hir::MatchSource::ForLoopDesugar => {
                    // match IntoIterator::into_iter(iter) { mut iter => loop { match next(&mut iter) { None => break, Some(pat) => body } } }
                    let iter = self.is_call_to(scrut, "IntoIterator::into_iter").and_then(|a| a.first());
                    let mut pat = J::Null;
                    let mut body = J::Null;
                    let mut loop_hid = J::Null;
                    if let Some(arm) = arms.first() {
                        if let E::Loop(lb, ..) = arm.body.kind {
                            loop_hid = J::Num(arm.body.hir_id.local_id.as_u32() as i128);
                            let inner = lb.expr.or_else(|| {
                                lb.stmts.first().and_then(|st| match st.kind {
                                    hir::StmtKind::Expr(x) | hir::StmtKind::Semi(x) => Some(x),
                                    _ => None,
                                })
                            });
                            if let Some(m) = inner {
                                if let E::Match(_, iarms, _) = m.kind {
                                    for a in iarms {
                                        match a.pat.kind {
                                            hir::PatKind::TupleStruct(_, ps, _) => {
                                                if let Some(p0) = ps.first() {
                                                    pat = self.pat(p0);
                                                    body = self.expr(a.body);
                                                }
                                            }
                                            hir::PatKind::Struct(_, fs, _) => {
                                                if let Some(f0) = fs.first() {
                                                    pat = self.pat(f0.pat);
                                                    body = self.expr(a.body);
                                                }
                                            }
                                            _ => {}
                                        }
                                    }
                                }
                            }
                        }
                    }
                    if matches!(pat, J::Null) {
                        let arms_j: Vec<J> = arms.iter().map(|a| J::Obj(vec![("pat", self.pat(a.pat)), ("body", self.expr(a.body))])).collect();
                        obj("for_raw", vec![("scrut", self.expr(scrut)), ("arms", J::Arr(arms_j))])
                    } else {
                    obj("for", vec![("pat", pat), ("iter", iter.map(|x| self.expr(x)).unwrap_or(J::Null)), ("hid", loop_hid), ("body", body)])
                    }
                }
                _ => {
                    let arms_j = arms
                        .iter()
                        .map(|a| {
                            let mut v = vec![("pat", self.pat(a.pat))];
                            if let Some(g) = a.guard {
                                v.push(("guard", self.expr(g)));
                            }
                            v.push(("body", self.expr(a.body)));
                            v.push(("ln", J::Num(line_of(self.tcx, a.span))));
                            J::Obj(v)
                        })
                        .collect();
                    obj("match", vec![("src", s(src.name())), ("scrut", self.expr(scrut)), ("scrut_ty", self.ty_str(scrut)), ("arms", J::Arr(arms_j))])
                }
            },
            E::ConstBlock(_) => obj("constblock", vec![]),
            E::InlineAsm(_) => obj("asm", vec![]),
            E::OffsetOf(..) => obj("offsetof", vec![]),
            E::UnsafeBinderCast(_, x, _) => return self.expr(x),
            E::Err(_) => obj("err", vec![]),
        };
        self.ann(e.span, &mut v);
        J::Obj(v)
    }
}

// ---------------------------------------------------------------- MIR summary
fn operand_j<'tcx>(tcx: TyCtxt<'tcx>, op: &mir::Operand<'tcx>) -> J {
    match op {
        mir::Operand::Copy(p) | mir::Operand::Move(p) => J::Obj(vec![("place", s(format!("{:?}", p)))]),
        mir::Operand::Constant(c) => {
            let ty = c.const_.ty();
            if let Some((did, _)) = op.const_fn_def() {
                return J::Obj(vec![("fn", s(tcx.def_path_str(did)))]);
            }
            let mut v = vec![("const_ty", s(format!("{:?}", ty)))];
            let env = ty::TypingEnv::fully_monomorphized();
            if ty.is_bool() || ty.is_integral() {
                if let Some(sc) = c.const_.try_eval_scalar_int(tcx, env) {
                    v.push(("int", s(format!("{:?}", sc))));
                }
            }
            v.push(("text", s(format!("{}", c.const_))));
            J::Obj(v)
        }
        #[allow(unreachable_patterns)]
        _ => J::Obj(vec![("op", s(format!("{:?}", op)))]),
    }
}

fn mir_summary<'tcx>(tcx: TyCtxt<'tcx>, def: LocalDefId) -> J {
    let (p, _) = tcx.mir_promoted(def);
    if p.is_stolen() {
        return J::Obj(vec![("stolen", J::Bool(true))]);
    }
    let body = p.borrow();
    let doms = body.basic_blocks.dominators();
    let mut blocks = vec![];
    for (bb, data) in body.basic_blocks.iter_enumerated() {
        let mut stmts = vec![];
        for st in &data.statements {
            if let mir::StatementKind::Assign(b) = &st.kind {
                let (place, rv) = &**b;
                // interesting: writes through a field projection, aggregates of ADTs, checked binops, discriminant reads
                let mut interesting = false;
                let mut v: Vec<(&'static str, J)> = vec![("lhs", s(format!("{:?}", place)))];
                let mut field_names = vec![];
                let mut ty = mir::PlaceTy::from_ty(body.local_decls[place.local].ty);
                for elem in place.projection.iter() {
                    if let mir::ProjectionElem::Field(f, _) = elem {
                        if let ty::Adt(adt, _) = ty.ty.kind() {
                            let variant = match ty.variant_index {
                                Some(vi) => adt.variant(vi),
                                None => adt.non_enum_variant(),
                            };
                            field_names.push(J::Str(format!("{}.{}", tcx.def_path_str(adt.did()), variant.fields[f].name)));
                            interesting = true;
                        }
                    }
                    ty = ty.projection_ty(tcx, elem);
                }
                if !field_names.is_empty() {
                    v.push(("lhs_fields", J::Arr(field_names)));
                }
                match rv {
                    mir::Rvalue::Aggregate(kind, ops) => {
                        if let mir::AggregateKind::Adt(did, vi, ..) = **kind {
                            let adt = tcx.adt_def(did);
                            v.push(("agg", s(format!("{}::{}", tcx.def_path_str(did), adt.variant(vi).name))));
                            v.push(("ops", J::Arr(ops.iter().map(|o| operand_j(tcx, o)).collect())));
                            interesting = true;
                        }
                    }
                    mir::Rvalue::BinaryOp(op, ops) => {
                        v.push(("binop", s(format!("{:?}", op))));
                        v.push(("ops", J::Arr(vec![operand_j(tcx, &ops.0), operand_j(tcx, &ops.1)])));
                        interesting = true;
                    }
                    mir::Rvalue::Discriminant(pl) => {
                        v.push(("discr_of", s(format!("{:?}", pl))));
                        v.push(("discr_ty", s(format!("{:?}", pl.ty(&body.local_decls, tcx).ty))));
                        interesting = true;
                    }
                    mir::Rvalue::Use(op, _) => {
                        v.push(("use", operand_j(tcx, op)));
                    }
                    _ => {}
                }
                if interesting {
                    v.push(("ln", J::Num(line_of(tcx, st.source_info.span))));
                    stmts.push(J::Obj(v));
                }
            }
        }
        let t = data.terminator();
        use mir::TerminatorKind as TK;
        let mut tv: Vec<(&'static str, J)> = match &t.kind {
            TK::Call { func, args, destination, target, .. } => {
                let mut v = vec![("t", s("call"))];
                if let Some((did, gargs)) = func.const_fn_def() {
                    v.push(("callee", s(tcx.def_path_str(did))));
                    let env = ty::TypingEnv::post_analysis(tcx, def.to_def_id());
                    if tcx.trait_of_assoc(did).is_some() {
                        if let Ok(Some(inst)) = ty::Instance::try_resolve(tcx, env, did, gargs) {
                            if inst.def_id() != did {
                                v.push(("impl", s(tcx.def_path_str(inst.def_id()))));
                            }
                        }
                    }
                } else {
                    v.push(("callee_expr", s(format!("{:?}", func))));
                }
                v.push(("args", J::Arr(args.iter().map(|a| operand_j(tcx, &a.node)).collect())));
                v.push(("dest", s(format!("{:?}", destination))));
                v.push(("target", target.map(|b| J::Num(b.as_u32() as i128)).unwrap_or(J::Null)));
                v
            }
            TK::SwitchInt { discr, targets } => {
                let mut v = vec![("t", s("switch")), ("discr", operand_j(tcx, discr))];
                let vals: Vec<J> = targets.iter().map(|(val, bb)| J::Arr(vec![J::Num(val as i128), J::Num(bb.as_u32() as i128)])).collect();
                v.push(("cases", J::Arr(vals)));
                v.push(("otherwise", J::Num(targets.otherwise().as_u32() as i128)));
                v
            }
            TK::Assert { cond, expected, msg, target, .. } => {
                vec![
                    ("t", s("assert")),
                    ("cond", operand_j(tcx, cond)),
                    ("expected", J::Bool(*expected)),
                    ("msg", s(format!("{:?}", msg).chars().take(60).collect::<String>())),
                    ("target", J::Num(target.as_u32() as i128)),
                ]
            }
            TK::Yield { resume, .. } => vec![("t", s("yield")), ("target", J::Num(resume.as_u32() as i128))],
            TK::Return => vec![("t", s("return"))],
            TK::Goto { target } => vec![("t", s("goto")), ("target", J::Num(target.as_u32() as i128))],
            TK::Drop { target, .. } => vec![("t", s("drop")), ("target", J::Num(target.as_u32() as i128))],
            TK::FalseEdge { real_target, .. } => vec![("t", s("goto")), ("target", J::Num(real_target.as_u32() as i128))],
            TK::FalseUnwind { real_target, .. } => vec![("t", s("goto")), ("target", J::Num(real_target.as_u32() as i128))],
            TK::Unreachable => vec![("t", s("unreachable"))],
            TK::UnwindResume | TK::UnwindTerminate(_) => vec![("t", s("unwind"))],
            other => vec![("t", s("other")), ("dbg", s(format!("{:?}", other).chars().take(40).collect::<String>()))],
        };
        tv.push(("ln", J::Num(line_of(tcx, t.source_info.span))));
        if t.source_info.span.from_expansion() {
            tv.push(("x", J::Arr(macro_stack_tcx(tcx, t.source_info.span).into_iter().map(J::Str).collect())));
        }
        let idom = doms.immediate_dominator(bb).map(|b| J::Num(b.as_u32() as i128)).unwrap_or(J::Null);
        blocks.push(J::Obj(vec![("bb", J::Num(bb.as_u32() as i128)), ("idom", idom), ("cleanup", J::Bool(data.is_cleanup)), ("stmts", J::Arr(stmts)), ("term", J::Obj(tv))]));
    }
    let locals: Vec<J> = body
        .var_debug_info
        .iter()
        .map(|d| J::Obj(vec![("name", s(d.name.to_string())), ("value", s(format!("{:?}", d.value)))]))
        .collect();
    J::Obj(vec![("blocks", J::Arr(blocks)), ("vars", J::Arr(locals)), ("arg_count", J::Num(body.arg_count as i128))])
}

// ---------------------------------------------------------------- driver
struct Cb;
impl Callbacks for Cb {
    fn after_expansion<'tcx>(&mut self, _c: &Compiler, tcx: TyCtxt<'tcx>) -> Compilation {
        let out_dir = match std::env::var("WBFACTS_OUT") {
            Ok(d) => d,
            Err(_) => return Compilation::Continue,
        };
        let krate = tcx.crate_name(LOCAL_CRATE).to_string();
        let only = std::env::var("WBFACTS_CRATES").unwrap_or_default();
        if !only.is_empty() && !only.split(',').any(|c| c == krate) {
            return Compilation::Continue;
        }
        let with_mir = std::env::var("WBFACTS_MIR").map(|v| v != "0").unwrap_or(true);
        let mut fns = vec![];
        for def in tcx.hir_body_owners() {
            let kind = tcx.def_kind(def);
            let is_fn = matches!(kind, DefKind::Fn | DefKind::AssocFn | DefKind::Closure);
            if !is_fn {
                continue;
            }
            let span = tcx.def_span(def);
            // skip derive-generated impls and other fully macro-generated fns (but keep attribute macros like #[instrument])
            if span.from_expansion() {
                let st = macro_stack_tcx(tcx, span);
                if st.iter().any(|m| m.starts_with("Derive:")) {
                    continue;
                }
            }
            let path = tcx.def_path_str(def.to_def_id());
            if path.contains("::_::") || path.contains("__CALLSITE") {
                continue;
            }
            let typeck = tcx.typeck(def);
            let body = tcx.hir_body_owned_by(def);
            let cx = Cx { tcx, typeck, owner: def };
            let params: Vec<J> = body.params.iter().map(|p| cx.pat(p.pat)).collect();
            let hirj = cx.expr(body.value);
            let mut v: Vec<(&'static str, J)> = vec![
                ("path", s(path)),
                ("kind", s(format!("{:?}", kind))),
                ("file", s(file_of(tcx, span))),
                ("line", J::Num(line_of(tcx, span))),
                ("params", J::Arr(params)),
                ("hir", hirj),
            ];
            if matches!(kind, DefKind::Fn | DefKind::AssocFn) {
                let sig = tcx.fn_sig(def.to_def_id()).instantiate_identity().skip_norm_wip();
                v.push(("sig", s(format!("{:?}", sig.skip_binder()))));
                v.push(("vis", s(format!("{:?}", tcx.visibility(def.to_def_id())))));
            }
            if kind == DefKind::Closure {
                v.push(("parent", s(tcx.def_path_str(tcx.local_parent(def).to_def_id()))));
                v.push(("coroutine", s(format!("{:?}", tcx.coroutine_kind(def.to_def_id())))));
            }
            if let Some(imp) = tcx.impl_of_assoc(def.to_def_id()) {
                if let Some(tr) = tcx.impl_opt_trait_ref(imp) {
                    v.push(("trait_impl", s(format!("{:?}", tr.skip_binder()))));
                }
            }
            if with_mir {
                v.push(("mir", mir_summary(tcx, def)));
            }
            fns.push(J::Obj(v));
        }
        // ADTs
        let mut adts = vec![];
        for id in tcx.hir_free_items() {
            let item = tcx.hir_item(id);
            let did = item.owner_id.to_def_id();
            if let hir::ItemKind::Enum(..) | hir::ItemKind::Struct(..) = item.kind {
                if item.span.from_expansion() {
                    continue;
                }
                let adt = tcx.adt_def(did);
                let variants: Vec<J> = adt
                    .variants()
                    .iter()
                    .map(|v| {
                        let fields: Vec<J> = v
                            .fields
                            .iter()
                            .map(|f| {
                                let ty = tcx.type_of(f.did).instantiate_identity().skip_norm_wip();
                                J::Obj(vec![("name", s(f.name.to_string())), ("ty", s(format!("{:?}", ty)))])
                            })
                            .collect();
                        J::Obj(vec![("name", s(v.name.to_string())), ("fields", J::Arr(fields))])
                    })
                    .collect();
                adts.push(J::Obj(vec![
                    ("path", s(tcx.def_path_str(did))),
                    ("is_enum", J::Bool(adt.is_enum())),
                    ("file", s(file_of(tcx, item.span))),
                    ("line", J::Num(line_of(tcx, item.span))),
                    ("variants", J::Arr(variants)),
                ]));
            }
        }
        // impls (including derive-generated ones): trait + self type
        let mut impls = vec![];
        for id in tcx.hir_free_items() {
            let item = tcx.hir_item(id);
            if let hir::ItemKind::Impl(..) = item.kind {
                let did = item.owner_id.to_def_id();
                let self_ty = tcx.type_of(did).instantiate_identity().skip_norm_wip();
                let tr = tcx.impl_opt_trait_ref(did).map(|t| tcx.def_path_str(t.skip_binder().def_id));
                let mut derived = false;
                if item.span.from_expansion() {
                    derived = macro_stack_tcx(tcx, item.span).iter().any(|m| m.starts_with("Derive:"));
                }
                impls.push(J::Obj(vec![
                    ("self_ty", s(format!("{:?}", self_ty))),
                    ("trait", tr.map(s).unwrap_or(J::Null)),
                    ("derived", J::Bool(derived)),
                    ("file", s(file_of(tcx, item.span))),
                    ("line", J::Num(line_of(tcx, item.span))),
                ]));
            }
        }
        let root = J::Obj(vec![("crate", s(krate.clone())), ("fns", J::Arr(fns)), ("adts", J::Arr(adts)), ("impls", J::Arr(impls))]);
        let mut out = String::new();
        root.write(&mut out);
        let crate_type = if tcx.crate_types().iter().any(|t| format!("{:?}", t).contains("Executable")) { "bin" } else { "lib" };
        let path = format!("{}/{}.{}.{}.json", out_dir, krate, crate_type, std::process::id());
        std::fs::write(&path, out).expect("write facts");
        Compilation::Continue
    }
}

fn main() {
    let mut args: Vec<String> = std::env::args().collect();
    if args.len() > 1 && args[1].ends_with("rustc") {
        args.remove(1);
    }
    run_compiler(&args, &mut Cb);
}
