"""C01 — reads return exactly what the accepted writes imply (structural clauses)."""
from ..ir import callee, short, walk, ctor_name, pat_variants, guards, AnchorMissing
from ..trace import Tracer, ok_exits, err_exits, base
from ..prov import Bindings
from .common import *
from .corefx import core_paths, mutation_effective, failing_event, WRITE_FNS, fallibility

NOT_DECIDED = ('equivalence of get/pget/ls/pls/len with a reference map over all request histories; correctness of the '
               'recursive traversals beyond pruning (see C04); unicode / empty-segment handling; whether an imported tree '
               'contains empty leaves (Store::nmerge would keep them)')


def rule_a(prog, rep):
    rep.rule('C01.a', 'T3', 'error atomicity: in Worterbuch::{set,cset,delete,internal_pdelete,import} no exit that yields Err '
             'is reachable after a store mutation took effect (a fallible call placed after the mutator is the violation); '
             'fallibility of callees comes from a fixpoint over the crate, so back ends that swallow their errors are exact')
    fall = fallibility(prog)
    rep.analysed['fallibility'] = {'functions': len([f for f in prog.crate(WB).fns.values() if f.kind != 'Closure']),
                                   'may_fail': sum(1 for v in fall.may.values() if v), 'iterations': fall.iterations}
    nmut = 0
    for fname in WRITE_FNS:
        f, paths = core_paths(prog, fname)
        if not any(base(e).startswith('mut:') for (_, t, _) in paths for e in t):
            rep.violation('C01.a', f'Worterbuch::{fname}', f.loc, 'no store mutator call found in this function',
                          key=f'C01.a/{fname}/no-mutator')
            continue
        nmut += 1
        bad = {}
        for (ex, t, v) in err_exits(paths):
            i = mutation_effective(t)
            if i >= 0:
                fe = failing_event(t[i + 1:]) or '?'
                bad.setdefault(fe, t)
        if bad:
            for fe, t in sorted(bad.items()):
                rep.violation('C01.a', f'Worterbuch::{fname}:{fe}', f.loc,
                              f'Err exit caused by `{fe}` after `{base(t[mutation_effective(t)])}` took effect; trace={list(t)}',
                              key=f'C01.a/{fname}/{fe}', expected='no fallible step after the store mutation')
        else:
            rep.ok('C01.a', f'Worterbuch::{fname}', f.loc, f'{len(paths)} abstract paths; no Err exit after an effective mutation')
    rep.floor('C01.a', nmut, 5, 'core write functions with a mutator')


def _store_tracer(crate, labels, **kw):
    def classify(n, anc):
        if n.get('k') != 'call':
            return None
        c = callee(n)
        for suffix, lab in labels.items():
            if c.endswith(suffix):
                return lab
        return None
    return Tracer(crate, classify, **kw)


def rule_b(prog, rep):
    rep.rule('C01.b', 'T3', 'no half-created branches: in every Store method that creates nodes (get_or_create_child / '
             'get_or_create_lock_node) each path after the creation either sets a value on the node, cleans up '
             '(trim / ndelete / delete_lock_node), or is on the Some edge of a value() test of that node (it was populated '
             'already); for the recursive Store::nmerge: the children it creates are pruned by node.trim() when the imported '
             'sub-tree left them empty')
    crate = prog.crate(WB)
    labels = {'Node::<K, V>::get_or_create_child': 'create', 'Store::get_or_create_lock_node': 'create',
              'Node::<K, V>::set_value': 'set', 'Node::<K, V>::trim': 'cleanup', 'Store::delete_lock_node': 'cleanup',
              'Node::<K, V>::value': 'value', 'Node::<K, V>::value_mut': 'value', 'Store::nmerge': 'recurse',
              'Store::ndelete': 'cleanup'}
    n = 0
    for name in ('insert', 'lock', 'acquire_lock', 'unlock', 'nmerge'):
        f = crate.fn(f'{STORE}::{name}')
        if name == 'nmerge':
            # the created child is handed to the recursive call in the same loop iteration
            labels2 = dict(labels)
        tr = _store_tracer(crate, labels, max_paths=20000)
        paths = tr.run_fn(f)
        creates = [p for p in paths if any(base(e) == 'create' for e in p[1])]
        if not creates:
            if name == 'unlock':
                rep.ok('C01.b', f'Store::{name}', f.loc, 'does not create nodes')
                n += 1
                continue
            rep.violation('C01.b', f'Store::{name}', f.loc, 'anchor: no node-creating call found', key=f'C01.b/{name}/no-create')
            continue
        n += 1
        bad = None
        for (ex, t, v) in creates:
            tb = [base(e) for e in t]
            i = tb.index('create')
            rest = tb[i + 1:]
            if 'set' in rest or 'cleanup' in rest or 'value@Some' in rest:
                continue
            bad = (ex, t, v)
            break
        if bad:
            ex, t, v = bad
            kind = 'Err' if (ex == 'try' or v == 'err') else 'Ok'
            rep.violation('C01.b', f'Store::{name}', f.loc, f'{kind} exit after creating nodes without populating or pruning '
                          f'them: trace={list(t)}', key=f'C01.b/{name}/{kind}-exit-after-create',
                          expected='set_value / trim / value()@Some after get_or_create_*')
        else:
            rep.ok('C01.b', f'Store::{name}', f.loc, f'{len(creates)} creating paths, all populate or prune')
    rep.floor('C01.b', n, 5, 'node-creating store functions')


def rule_c(prog, rep):
    rep.rule('C01.c', 'T1', 'entry-count bookkeeping: every Store method that changes values of the data tree (calls '
             'set_value / ndelete / ndelete_matches / nmerge on self.data, or assigns self.data) also updates Store.len '
             '(assignment to the field or count_entries()) on a path after the change')
    crate = prog.crate(WB)
    labels = {'Node::<K, V>::set_value': 'chg', 'Store::ndelete': 'chg', 'Store::ndelete_matches': 'chg',
              'Store::nmerge': 'chg', 'Store::count_entries': 'len', 'Store::ncount_values': 'cnt'}
    want = ['insert', 'delete', 'delete_matches', 'merge', 'reset']
    n = 0
    for f in crate.top_fns():
        if not f.path.startswith(STORE + '::') or f.path.count('::') != 2:
            continue
        name = short(f.path)
        if 'mut store::Store' not in f.sig.split(',')[0]:
            continue  # associated helper without `&mut self` (the recursive traversals): judged through their callers
        if name in ('lock', 'acquire_lock', 'unlock', 'unlock_all', 'delete_lock_node', 'get_or_create_lock_node'):
            continue  # lock tree, not the data tree (Store.len counts data entries)

        def classify(node, anc, labels=labels):
            k = node.get('k')
            if k == 'call':
                c = callee(node)
                for suffix, lab in labels.items():
                    if c.endswith(suffix):
                        return lab
            if k in ('assign', 'assignop'):
                l = node['l']
                if l.get('k') == 'field' and 'store::Store' in str(l.get('base_ty')):
                    if l['name'] == 'len':
                        return 'len'
                    if l['name'] == 'data':
                        return 'chg'
            return None
        paths = Tracer(crate, classify, max_paths=20000).run_fn(f)
        changing = [p for p in paths if any(base(e) == 'chg' for e in p[1])]
        if not changing:
            continue
        n += 1
        good = False
        for (ex, t, v) in changing:
            tb = [base(e) for e in t]
            i = tb.index('chg')
            if 'len' in tb[i + 1:]:
                good = True
        if name == 'export':
            continue
        if good:
            rep.ok('C01.c', f'Store::{name}', f.loc, 'updates Store.len after changing the data tree')
        else:
            rep.violation('C01.c', f'Store::{name}', f.loc, 'changes the data tree but never updates Store.len afterwards',
                          key=f'C01.c/{name}/no-len-update', expected='self.len update or count_entries()')
        if name in want:
            want.remove(name)
    for w in want:
        rep.violation('C01.c', f'Store::{w}', '', f'anchor: Store::{w} no longer recognised as changing the data tree',
                      key=f'C01.c/{w}/anchor')
    # From<PersistedStore> for Store
    fr = [f for f in crate.top_fns() if short(f.path) == 'from' and 'PersistedStore' in f.sig and 'store::Store' in f.sig.split('->')[-1]]
    if len(fr) == 1:
        cs = crate.calls(fr[0], lambda c: c.endswith('Store::count_entries'))
        if cs:
            rep.ok('C01.c', 'From<PersistedStore> for Store', fr[0].loc, 'calls count_entries()')
        else:
            rep.violation('C01.c', 'From<PersistedStore> for Store', fr[0].loc, 'installs a data tree without counting its entries',
                          key='C01.c/from_persisted/no-count')
        n += 1
    else:
        rep.violation('C01.c', 'From<PersistedStore> for Store', '', f'anchor: {len(fr)} candidates', key='C01.c/from_persisted/anchor')
    rep.floor('C01.c', n, 6, 'data-tree changing store functions')
    # shape of the three incremental updates
    shapes = {'insert': ('Add', '!value_existed'), 'delete': ('Sub', 'removed.is_some()')}
    for name, (op, _) in shapes.items():
        f = crate.fn(f'{STORE}::{name}')
        hits = [nd for nd, a in crate.walk_fn(f) if nd.get('k') == 'assignop' and nd['l'].get('k') == 'field'
                and nd['l']['name'] == 'len']
        okk = len(hits) == 1 and hits[0].get('op') in (op, op + 'Assign') and hits[0]['r'].get('k') == 'lit' and \
            hits[0]['r']['v'].get('v') == 1
        if okk:
            rep.ok('C01.c', f'Store::{name}:step', loc(f, hits[0]), f'len {op} 1')
        else:
            rep.violation('C01.c', f'Store::{name}:step', f.loc, f'expected exactly one `self.len {op}= 1`, found '
                          f'{[(h.get("op"), h["r"].get("v")) for h in hits]}', key=f'C01.c/{name}/step')


def rule_e(prog, rep):
    rep.rule('C01.e', 'T2', 'delete prunes: in ndelete, ndelete_child_matches, ndelete_matches and ndelete_lock_nodes every '
             'path that returns normally after descending into a child (or dropping children) passes node.trim()')
    crate = prog.crate(WB)
    labels = {'Store::ndelete': 'rec', 'Store::ndelete_matches': 'rec', 'Store::ndelete_child_matches': 'rec',
              'Store::ndelete_lock_nodes': 'rec', 'Node::<K, V>::drop_children': 'rec', 'Node::<K, V>::trim': 'trim'}
    n = 0
    for name in ('ndelete', 'ndelete_child_matches', 'ndelete_matches', 'ndelete_lock_nodes'):
        f = crate.fn(f'{STORE}::{name}')
        paths = _store_tracer(crate, labels).run_fn(f)
        desc = [p for p in ok_exits(paths) if any(base(e) == 'rec' for e in p[1])]
        if not desc:
            rep.violation('C01.e', f'Store::{name}', f.loc, 'anchor: no descending path found', key=f'C01.e/{name}/anchor')
            continue
        n += 1
        bad = None
        for (ex, t, v) in desc:
            tb = [base(e) for e in t]
            last_rec = max(i for i, e in enumerate(tb) if e == 'rec')
            if 'trim' not in tb[last_rec + 1:]:
                bad = t
        if bad:
            rep.violation('C01.e', f'Store::{name}', f.loc, f'returns after descending without trim(): trace={list(bad)}',
                          key=f'C01.e/{name}/no-trim', expected='node.trim() after the recursive call')
        else:
            rep.ok('C01.e', f'Store::{name}', f.loc, f'{len(desc)} descending paths, all trim afterwards')
    rep.floor('C01.e', n, 4, 'pruning traversals')


def rule_f(prog, rep):
    rep.rule('C01.f', 'T7/T4', 'the store sees the request key: Worterbuch::{get,cget,set,cset,delete,publish,lock,acquire_lock,'
             'release_lock} parse exactly the request key with parse_segments and hand that path to the store call; pget / '
             'internal_pdelete / pls parse the request pattern with KeySegment::parse; get and cget map Some -> Ok(value) and '
             'None -> Err(NoSuchValue(key)); Store::get / cget read the node reached by get_node(path); get_node descends with '
             'get_child(elem) for every element')
    crate = prog.crate(WB)
    table = {'get': ('get', 'key'), 'cget': ('cget', 'key'), 'set': ('insert_plain', 'key'), 'cset': ('insert_cas', 'key'),
             'delete': ('delete', 'key'), 'lock': ('lock', 'key'), 'acquire_lock': ('acquire_lock', 'key'), 'release_lock': ('unlock', 'key')}
    n = 0
    for m, (sfn, param) in table.items():
        f = crate.fn(f'{CORE}::{m}')
        b = Bindings(crate, f)
        ps = crate.calls(f, lambda c: short(c) == 'parse_segments')
        sc = crate.calls(f, lambda c: c == f'{STORE}::{sfn}')
        n += 1
        problems = []
        if len(ps) != 1 or b.origins(ps[0][0]['args'][0]) != {f'param({param})'}:
            problems.append('parse_segments is not applied to the request key')
        if len(sc) != 1:
            problems.append(f'{len(sc)} calls of Store::{sfn}')
        else:
            po = set()
            for a in sc[0][0]['args'][1:]:
                o = b.origins(a)
                if any('parse_segments' in x for x in o):
                    po = o
            if not po:
                problems.append(f'Store::{sfn} is not called with the parsed request key')
        if m in ('set', 'cset'):
            vo = b.origins(sc[0][0]['args'][2]) if sc else set()
            if vo != {'param(value)'}:
                problems.append(f'stored value <- {sorted(vo)}')
            if m == 'cset' and sc and b.origins(sc[0][0]['args'][3]) != {'param(version)'}:
                problems.append('version operand is not the request version')
            if sc and b.origins(sc[0][0]['args'][-1]) != {'param(force)'}:
                problems.append('force operand is not passed on')
        if problems:
            rep.violation('C01.f', f'Worterbuch::{m}', f.loc, '; '.join(problems), key=f'C01.f/{m}/' + '|'.join(problems))
        else:
            rep.ok('C01.f', f'Worterbuch::{m}', f.loc, f'Store::{sfn}(parse_segments({param}), ..)')
    for m, sfn in (('pget', 'get_matches'), ('internal_pdelete', 'delete_matches'), ('pls_path', 'pls')):
        f = crate.fn(f'{CORE}::{m}')
        b = Bindings(crate, f)
        sc = crate.calls(f, lambda c: c == f'{STORE}::{sfn}')
        n += 1
        o = b.origins(sc[0][0]['args'][1]) if len(sc) == 1 else set()
        good = len(sc) == 1 and (any('KeySegment::parse' in x for x in o) or o == {'param(path)'})
        if m != 'pls_path':
            kp = crate.calls(f, lambda c: c.endswith('KeySegment::parse'))
            good = good and len(kp) == 1 and b.origins(kp[0][0]['args'][0]) == {'param(pattern)'}
        if good:
            rep.ok('C01.f', f'Worterbuch::{m}', f.loc, f'Store::{sfn}(KeySegment::parse(pattern))')
        else:
            rep.violation('C01.f', f'Worterbuch::{m}', f.loc, f'the store is not queried with the parsed request pattern ({sorted(o)})',
                          key=f'C01.f/{m}/pattern')
    rep.floor('C01.f', n, 11, 'request functions')
    for m in ('get', 'cget'):
        f = crate.fn(f'{CORE}::{m}')
        b = Bindings(crate, f)
        ms = [nd for nd, a in crate.walk_fn(f) if nd.get('k') == 'match' and 'Option' in str(nd.get('scrut_ty'))]
        good = False
        if len(ms) == 1:
            arms = {tuple(sorted(short(v) for v in pat_variants(a['pat']))): a for a in ms[0]['arms']}
            some, none = arms.get(('Some',)), arms.get(('None',))
            if some and none:
                ok_some = any(x.get('k') == 'call' and short(callee(x)) == 'Ok' for x, _ in walk(some['body'])) and \
                    not any(ctor_name(x) and 'WorterbuchError' in ctor_name(x) for x, _ in walk(some['body']))
                ne = [x for x, _ in walk(none['body']) if ctor_name(x) and 'WorterbuchError::' in ctor_name(x)]
                ok_none = len(ne) == 1 and short(ctor_name(ne[0])) == 'NoSuchValue' and any('param(key)' in o for o in b.origins(ne[0]['args'][0]))
                good = ok_some and ok_none
        if good:
            rep.ok('C01.f', f'Worterbuch::{m}:mapping', f.loc, 'Some -> Ok(value); None -> Err(NoSuchValue(key))')
        else:
            rep.violation('C01.f', f'Worterbuch::{m}:mapping', f.loc, 'the Option of the store is not mapped to Ok / NoSuchValue(key)',
                          key=f'C01.f/{m}/mapping')
    g = crate.fn(f'{STORE}::get_node')
    gb = Bindings(crate, g)
    loops = [nd for nd, a in crate.walk_fn(g) if nd.get('k') == 'for']
    gc = [nd for nd, a in crate.walk_fn(g) if nd.get('k') == 'call' and short(callee(nd)) == 'get_child']
    good = len(loops) == 1 and gb.origins(loops[0]['iter']) == {'param(path)'} and len(gc) == 1 and \
        all('param(path)[*]' in x for x in gb.origins(gc[0]['args'][1])) and \
        any(nd.get('k') == 'try' for nd, a in crate.walk_fn(g))
    if good:
        rep.ok('C01.f', 'Store::get_node', g.loc, 'descends with get_child(elem)? for every element of the path, from self.data')
    else:
        rep.violation('C01.f', 'Store::get_node', g.loc, 'the lookup does not follow every path element', key='C01.f/get_node')
    for m in ('get', 'cget'):
        f = crate.fn(f'{STORE}::{m}')
        fb = Bindings(crate, f)
        gn = crate.calls(f, lambda c: c == f'{STORE}::get_node')
        if len(gn) == 1 and fb.origins(gn[0][0]['args'][1]) == {'param(path)'} and \
                any(short(callee(nd)) == 'value' for nd, a in crate.calls(f)):
            rep.ok('C01.f', f'Store::{m}', f.loc, 'get_node(path)?.value()')
        else:
            rep.violation('C01.f', f'Store::{m}', f.loc, 'does not read the value of the node at `path`', key=f'C01.f/Store::{m}')


def rule_g(prog, rep):
    rep.rule('C01.g', 'T3+T7', 'import stores what it was given: in Store::nmerge every imported entry (the Some edge of '
             'other.take_value()) is written with node.set_value(<that entry>) unconditionally - value, kind (plain / CAS) and '
             'version; merge recounts the entries afterwards')
    crate = prog.crate(WB)
    f = crate.fn(f'{STORE}::nmerge')
    b = Bindings(crate, f)
    sets = [(nd, anc) for nd, anc in crate.walk_fn(f) if nd.get('k') == 'call' and callee(nd).endswith('Node::<K, V>::set_value')]
    problems = []
    if len(sets) != 1:
        problems.append(f'{len(sets)} set_value sites')
    else:
        nd, anc = sets[0]
        g = [it for it in guards(anc + (nd,)) if it[0] in ('if', 'match', 'loop')]
        cond_ok = len(g) == 1 and g[0][0] == 'if' and g[0][2] is True and g[0][1].get('k') == 'letcond' and \
            g[0][1]['init'].get('k') == 'call' and short(callee(g[0][1]['init'])) == 'take_value' and \
            b.origins(g[0][1]['init']['args'][0]) == {'param(other)'}
        if not cond_ok:
            problems.append('the entry is not stored on every path of the Some(entry) edge of other.take_value()')
        vo = b.origins(nd['args'][1])
        if not vo or not all('take_value' in x and x.endswith('#Some.0') for x in vo):
            problems.append(f'the stored entry is not the imported one ({sorted(vo)})')
        if b.origins(nd['args'][0]) != {'param(node)'}:
            problems.append('not stored into the node being merged')
    m = crate.fn(f'{STORE}::merge')
    mb = Bindings(crate, m)
    def _recounts(fn_, b_):
        asg_ = [nd for nd, a in crate.walk_fn(fn_) if nd.get('k') == 'assign' and nd['l'].get('k') == 'field' and nd['l']['name'] == 'len']
        return len(asg_) == 1 and any('ncount_values' in x for x in b_.origins(asg_[0]['r']))
    ce = crate.fn(f'{STORE}::count_entries')
    via_ce = bool(crate.calls(m, lambda c: c == f'{STORE}::count_entries')) and _recounts(ce, Bindings(crate, ce))
    if not (_recounts(m, mb) or via_ce):
        problems.append('merge does not recount the entries')
    if problems:
        rep.violation('C01.g', 'Store::nmerge', f.loc, '; '.join(problems), key='C01.g/nmerge/' + '|'.join(p_.split(' (')[0] for p_ in problems))
    else:
        rep.ok('C01.g', 'Store::nmerge', loc(f, sets[0][0]), 'if let Some(entry) = other.take_value() { node.set_value(entry) } - unconditional; merge recounts')


def rule_h(prog, rep):
    rep.rule('C01.h', 'T1', 'delete removes one entry: Store::ndelete only takes the value at the end of the path (take_value) and prunes '
             'emptied nodes (trim); it never drops a sub-tree or removes children directly, so the keys below a deleted key stay')
    from .c04 import single_key_removal_discipline
    n = single_key_removal_discipline(prog, rep, 'C01.h', ('ndelete',), 'the value')
    rep.floor('C01.h', n, 2, 'removal operations in ndelete')


RULES = [('C01.h', rule_h), ('C01.g', rule_g), ('C01.f', rule_f), ('C01.a', rule_a), ('C01.b', rule_b), ('C01.c', rule_c), ('C01.e', rule_e)]
